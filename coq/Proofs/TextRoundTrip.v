(** The 1029 free-text field: what the encoder accepts, the decoder returns -- the longest prefix of whole
    characters that fits 255 bytes, unchanged (C17), in the layout of message 1029. *)
From Coq Require Import ZArith List Lia Bool.
From RtcmModel Require Import Types BitIO Floats Field SigId Text Bias Msm Layout.
From RtcmProofs Require Import BitLemmas ListZ FragInd EncodeLen BitProofs DecodeBound DecodeTotal FieldProofs TextProofs RoundTrip.
Import ListNotations.
Open Scope Z_scope.

Ltac Zify.zify_post_hook ::= Z.div_mod_to_equations.

(** a byte from its eight bits *)
Lemma byte_of_bits d k b : bytes_ok d = true -> 0 <= k -> 0 <= b < 256 ->
  (forall j, 0 <= j < 8 -> bitat d (8 * k + j) = Z.testbit b (7 - j)) -> znth d k = b.
Proof.
  intros Hb Hk Hbb H. pose proof (bytes_ok_znth d k Hb) as Hz.
  apply Z.bits_inj'. intros m Hm. destruct (Z_lt_ge_dec m 8) as [L|G].
  - specialize (H (7 - m) ltac:(lia)). unfold bitat in H. replace ((8 * k + (7 - m)) / 8) with k in H by lia.
    replace (7 - (8 * k + (7 - m)) mod 8) with m in H by lia. replace (7 - (7 - m)) with m in H by lia. exact H.
  - rewrite (testbit_small (znth d k) 8 m), (testbit_small b 8 m) by (try (change (2 ^ 8) with 256); lia). reflexivity.
Qed.

(** writing bytes at a byte-aligned position stores them as the bytes of the buffer *)
Lemma put_bytes_aligned : forall l d o d' o', bytes_ok d = true -> 0 <= o -> o mod 8 = 0 ->
  Forall (fun b => 0 <= b < 256) l -> put_bytes (d, o) l = Ok (d', o') ->
  o' = o + 8 * zlen l /\ bytes_ok d' = true /\ zlen d' = zlen d /\ agree d d' 0 o /\
  forall j, 0 <= j < zlen l -> znth d' (o / 8 + j) = znth l j.
Proof.
  induction l as [|b l IH]; intros d o d' o' Hb Ho Hal Hl H; cbn [put_bytes fst snd] in H.
  - inversion H; subst. split; [unfold zlen; cbn [length]; lia|]. split; [exact Hb|]. split; [reflexivity|]. split; [apply agree_refl|].
    intros j Hj. unfold zlen in Hj. cbn in Hj. lia.
  - inversion Hl as [|? ? Hb0 Hl']; subst.
    destruct (put KU 8 d o b 8) as [[d1 o1]|e|] eqn:P; cbn [bind] in H; try discriminate.
    destruct (put_frame KU 8 d o b 8 d1 o1 ltac:(lia) ltac:(lia) Ho Hb P) as [-> [Hfit [L1 [B1 A1]]]].
    destruct (put_bits KU 8 d o b 8 b ltac:(lia) ltac:(lia) Ho Hfit Hb eq_refl) as [d1' [P' [_ [_ Bits]]]]. rewrite P in P'. inversion P'; subst d1'.
    destruct (IH d1 (o + 8) d' o' B1 ltac:(lia) ltac:(lia) Hl' H) as [-> [B2 [L2 [A2 Hn]]]].
    rewrite zlen_cons. split; [lia|]. split; [exact B2|]. split; [lia|]. split.
    + eapply agree_trans; [exact A1|]. apply (agree_sub _ _ 0 (o + 8)); [exact A2|lia|lia].
    + pose proof (zlen_nonneg l).
      intros j Hj. destruct (Z.eq_dec j 0) as [->|Hj0].
      * rewrite Z.add_0_r. rewrite znth_cons_0.
        apply byte_of_bits; [exact B2|lia|lia|]. intros t Ht. destruct A2 as [_ A2].
        rewrite <- (A2 (8 * (o / 8) + t)) by lia. rewrite Bits by lia.
        destruct (Z.leb_spec o (8 * (o / 8) + t)); [|lia]. destruct (Z.ltb_spec (8 * (o / 8) + t) (o + 8)); [|lia]. cbn [andb]. f_equal. lia.
      * rewrite znth_cons_S by lia. replace (o / 8 + j) with ((o + 8) / 8 + (j - 1)) by lia. apply Hn. lia.
Qed.

Lemma nth_skipn_plus' {A} (n k : nat) (l : list A) (x : A) : nth k (skipn n l) x = nth (n + k) l x.
Proof. revert l. induction n as [|n IH]; intros l; [reflexivity|]. destruct l as [|y r]; [destruct k; reflexivity|]. cbn [skipn]. rewrite IH. reflexivity. Qed.
Lemma znth_zskipn' k l j : 0 <= k -> 0 <= j -> znth (zskipn k l) j = znth l (k + j).
Proof. unfold znth, zskipn. intros Hk Hj. rewrite nth_skipn_plus'. f_equal. lia. Qed.

Lemma list_eq_znth (a b : list Z) : zlen a = zlen b -> (forall j, 0 <= j < zlen a -> znth a j = znth b j) -> a = b.
Proof.
  intros Hl H. apply (nth_ext a b 0 0); [unfold zlen in Hl; lia|]. intros n Hn.
  specialize (H (Z.of_nat n) ltac:(unfold zlen; lia)). unfold znth in H. rewrite Nat2Z.id in H. exact H.
Qed.

(** UTF-8 encoding of a scalar value yields bytes *)
Lemma utf8_encode_char_bytes c : scalar_ok c = true -> Forall (fun b => 0 <= b < 256) (utf8_encode_char c).
Proof.
  unfold scalar_ok, utf8_encode_char. intros H.
  assert (Hc : 0 <= c < 1114112).
  { apply orb_true_iff in H. destruct H as [H|H]; apply andb_true_iff in H; destruct H as [H1 H2]; apply Z.leb_le in H1; apply Z.ltb_lt in H2; lia. }
  destruct (Z.ltb_spec c 128); [repeat constructor; lia|].
  destruct (Z.ltb_spec c 2048); [repeat constructor; lia|].
  destruct (Z.ltb_spec c 65536); repeat constructor; lia.
Qed.
Lemma utf8_encode_bytes cs : forallb scalar_ok cs = true -> Forall (fun b => 0 <= b < 256) (utf8_encode cs).
Proof.
  induction cs as [|c r IH]; intros H; [constructor|]. cbn [forallb] in H. apply andb_true_iff in H. destruct H as [Hc Hr].
  unfold utf8_encode. cbn [flat_map]. apply Forall_app. split; [apply utf8_encode_char_bytes; exact Hc|apply IH; exact Hr].
Qed.

(** the text field: what the encoder accepts at a position where the bytes land byte-aligned (as in 1029),
    the decoder returns -- the longest prefix of whole characters that fits 255 bytes *)
Theorem encode_utf8_decodes d o cs d' o' : bytes_ok d = true -> 0 <= o -> (o + 15) mod 8 = 0 ->
  forallb scalar_ok cs = true -> encode_utf8 (d, o) (VStr cs) = Ok (d', o') ->
  o <= o' /\ bytes_ok d' = true /\ zlen d' = zlen d /\ agree d d' 0 o /\
  decode_utf8 d' o = Ok (VStr (firstn (fit_count 255 0 cs) cs), o').
Proof.
  intros Hb Ho Hal Hs H. unfold encode_utf8 in H.
  set (k := fit_count 255 0 cs) in *. set (prefix := firstn k cs) in *.
  destruct (array_string_from_spec 255 cs ltac:(lia)) as [Eb [Hfit _]]. fold k in Eb, Hfit. fold prefix in Eb, Hfit.
  assert (Hps : forallb scalar_ok prefix = true) by (apply forallb_firstn; exact Hs).
  rewrite (array_string_valid 255 cs ltac:(lia) Hs) in H. fold k in H. fold prefix in H.
  set (bytes := array_string_from 255 cs) in *.
  assert (Hbl : zlen bytes = utf8_total prefix) by (rewrite Eb; apply utf8_encode_len).
  assert (Hbb : Forall (fun b => 0 <= b < 256) bytes) by (rewrite Eb; apply utf8_encode_bytes; exact Hps).
  pose proof (utf8_total_nonneg prefix) as Hnn. pose proof (zlen_nonneg prefix) as Hcn.
  destruct ((255 <? zlen bytes) || (127 <? zlen prefix)) eqn:Hc; [discriminate|]. apply orb_false_iff in Hc. destruct Hc as [Hc1 Hc2]. apply Z.ltb_ge in Hc1, Hc2.
  cbn [fst snd] in H.
  destruct (put KU 8 d o (zlen prefix mod 256) 7) as [[d1 o1]|e|] eqn:P1; cbn [bind fst snd] in H; try discriminate.
  destruct (put_frame KU 8 d o _ 7 d1 o1 ltac:(lia) ltac:(lia) Ho Hb P1) as [-> [F1 [L1 [B1 A1]]]].
  rewrite (Z.mod_small (zlen bytes) 256) in H by lia.
  destruct (put KU 8 d1 (o + 7) (zlen bytes) 8) as [[d2 o2]|e|] eqn:P2; cbn [bind] in H; try discriminate.
  destruct (put_frame KU 8 d1 (o + 7) _ 8 d2 o2 ltac:(lia) ltac:(lia) ltac:(lia) B1 P2) as [-> [F2 [L2 [B2 A2]]]].
  assert (Hr : representable KU 8 (zlen bytes)) by (cbn [representable]; change (2 ^ 8) with 256; lia).
  destruct (put_parse_roundtrip KU 8 d1 (o + 7) (zlen bytes) 8 ltac:(lia) ltac:(lia) ltac:(lia) F2 B1 Hr) as [d2' [P2' Pa2]]. rewrite P2 in P2'. inversion P2'; subst d2'.
  destruct (put_bytes_aligned bytes d2 (o + 7 + 8) d' o' B2 ltac:(lia) ltac:(replace (o + 7 + 8) with (o + 15) by lia; exact Hal) Hbb H) as [-> [B3 [L3 [A3 Hn]]]].
  destruct (put_bytes_room bytes d2 (o + 7 + 8) d' _ B2 ltac:(lia) H) as [_ Hroom].
  assert (Hroom' : o + 7 + 8 + 8 * zlen bytes <= 8 * zlen d2).
  { destruct (Z.eq_dec (zlen bytes) 0) as [E0|E0]; [rewrite E0; lia|]. apply Hroom. intros X. apply E0. rewrite X. reflexivity. }
  split; [lia|]. split; [exact B3|]. split; [lia|]. split.
  - eapply agree_trans; [exact A1|]. eapply agree_trans; [apply (agree_sub _ _ 0 (o + 7)); [exact A2|lia|lia]|]. apply (agree_sub _ _ 0 (o + 7 + 8)); [exact A3|lia|lia].
  - unfold decode_utf8.
    destruct (parse_ok KU 8 d' o 7 ltac:(lia) ltac:(lia) Ho ltac:(lia) B3) as [c7 Pc]. rewrite Pc. cbn [bind].
    rewrite <- (parse_ext KU 8 d2 d' (o + 7) 8 ltac:(lia) ltac:(lia) ltac:(lia) B2 B3 ltac:(apply (agree_sub _ _ 0 (o + 7 + 8)); [exact A3|lia|lia])), Pa2. cbn [bind].
    destruct (Z.ltb_spec (zlen d') ((o + 7 + 8) / 8)); [lia|].
    set (kb := (o + 7 + 8) / 8) in *.
    assert (Hsk : zlen (zskipn kb d') = zlen d' - kb) by (apply zlen_zskipn; lia).
    destruct (Z.ltb_spec (zlen (zskipn kb d')) (zlen bytes)); [lia|].
    assert (Hfirst : zfirstn (zlen bytes) (zskipn kb d') = bytes).
    { apply list_eq_znth; [apply zlen_zfirstn; lia|]. intros j Hj. rewrite zlen_zfirstn in Hj by lia.
      rewrite znth_zfirstn by lia. rewrite znth_zskipn' by lia. apply Hn. exact Hj. }
    rewrite Hfirst. unfold bytes at 1. rewrite (array_string_valid 255 cs ltac:(lia) Hs). fold k. fold prefix.
    change (array_string_from 255 prefix) with (de_array_string 255 prefix). rewrite (serde_array_string_roundtrip 255 prefix ltac:(lia) ltac:(lia)).
    rewrite (utf8_roundtrip prefix Hps). f_equal. f_equal. lia.
Qed.

Section TextMsg.
  Variable sigt : gnss -> sigtable.
  Variable ssr59 ssr65 : sigtable.
  Variable cap59 cap65 : Z.
  Notation dec := (decode_frag sigt ssr59 ssr65 cap59 cap65).
  Notation enc := (encode_frag sigt ssr59 ssr65 cap59 cap65).
  Notation go_dec := (fun data => fix go (fl : list frag) (off : Z) {struct fl} : outcome (list val * Z) :=
         match fl with
         | [] => Ok ([], off)
         | f' :: fl' => '(x, off1) <- dec f' data off ;; '(r, off2) <- go fl' off1 ;; Ok (x :: r, off2)
         end).
  Notation go_enc := (fix go (fl : list frag) (vs : list val) (st : astate) {struct fl} : outcome astate :=
         match fl, vs with
         | [], [] => Ok st
         | f' :: fl', v' :: vs' => st' <- enc f' st v' ;; go fl' vs' st'
         | _, _ => Panic
         end).

  Lemma go_enc_app : forall fl1 vs1 fl2 vs2 st, length vs1 = length fl1 ->
    go_enc (fl1 ++ fl2) (vs1 ++ vs2) st = (st1 <- go_enc fl1 vs1 st ;; go_enc fl2 vs2 st1).
  Proof.
    induction fl1 as [|f fl1 IH]; intros vs1 fl2 vs2 st Hl; destruct vs1 as [|v vs1]; try discriminate; [reflexivity|].
    cbn [app]. destruct (enc f st v) as [st'|e|]; cbn [bind]; try reflexivity. apply IH. cbn [length] in Hl. lia.
  Qed.

  Lemma go_dec_app data : forall fl1 fl2 off,
    go_dec data (fl1 ++ fl2) off = ('(a, o1) <- go_dec data fl1 off ;; '(b, o2) <- go_dec data fl2 o1 ;; Ok (a ++ b, o2)).
  Proof.
    induction fl1 as [|f fl1 IH]; intros fl2 off; cbn [app].
    - cbn [bind]. destruct (go_dec data fl2 off) as [[b o2]|e|]; reflexivity.
    - destruct (dec f data off) as [[x o1]|e|]; cbn [bind]; try reflexivity. rewrite IH.
      destruct (go_dec data fl1 o1) as [[a o2]|e|]; cbn [bind]; try reflexivity.
      destruct (go_dec data fl2 o2) as [[b o3]|e|]; reflexivity.
  Qed.

  (** a message made of plain fragments followed by the text field (1029): what the encoder accepts, the
      decoder returns, with the text cut to the longest prefix of whole characters that fits 255 bytes *)
  Theorem text_message_decodes fl vs cs d o d' o' : forallb plain fl = true -> forallb counts_ok fl = true ->
    length vs = length fl -> bytes_ok d = true -> 0 <= o -> forallb scalar_ok cs = true ->
    (forall d1 o1, go_enc fl vs (d, o) = Ok (d1, o1) -> (o1 + 15) mod 8 = 0) ->
    enc (FStruct (fl ++ [FUtf8])) (d, o) (VStruct (vs ++ [VStr cs])) = Ok (d', o') ->
    exists vs', dec (FStruct (fl ++ [FUtf8])) d' o = Ok (VStruct (vs' ++ [VStr (firstn (fit_count 255 0 cs) cs)]), o') /\ Forall2 shape vs vs'.
  Proof.
    intros Hp Hc Hl Hb Ho Hs Hal H. cbn [encode_frag] in H. rewrite go_enc_app in H by exact Hl.
    destruct (go_enc fl vs (d, o)) as [[d1 o1]|e|] eqn:E1; cbn [bind] in H; try discriminate.
    destruct (list_acc sigt ssr59 ssr65 cap59 cap65 fl ltac:(apply Forall_forall; intros x _; apply accepted_decodes) Hp Hc vs d o d1 o1 Hb Ho E1)
      as [M1 [B1 [L1 [A1 [vs' [D1 S1]]]]]].
    destruct (encode_frag sigt ssr59 ssr65 cap59 cap65 FUtf8 (d1, o1) (VStr cs)) as [[d2 o2]|e|] eqn:E2; cbn [bind] in H; try discriminate.
    inversion H; subst d2 o2. cbn [encode_frag] in E2.
    destruct (encode_utf8_decodes d1 o1 cs d' o' B1 ltac:(lia) (Hal d1 o1 eq_refl) Hs E2) as [M2 [B2 [L2 [A2 D2]]]].
    exists vs'. split; [|exact S1]. cbn [decode_frag]. rewrite go_dec_app.
    rewrite (list_ext' sigt ssr59 ssr65 cap59 cap65 fl Hp d1 d' o vs' o1 B1 B2 Ho D1 ltac:(apply (agree_sub _ _ 0 o1); [exact A2|lia|lia])). cbn [bind].
    cbn [decode_frag]. rewrite D2. cbn [bind]. reflexivity.
  Qed.
End TextMsg.

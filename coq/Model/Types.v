(** Shared types of the executable model of rtcm-rs: outcomes, errors, field specifications,
    layouts and the generic value tree.  No proofs in Model/. *)
From Coq Require Import ZArith List Bool.
Import ListNotations.
Open Scope Z_scope.

(** [RtcmError] (src/rtcm_error.rs), same constructor order. *)
Inductive err :=
| NotValid | Incomplete | BufferOverflow | CapacityExceeded | EncodingNotSupported
| DuplicateSatellite | InvalidSatelliteId | InvalidSignalId | SatelliteMismatch
| DuplicateSatelliteSignal | InvalidSatelliteSignalCount | OutOfRange | InvalidUtf8String.

Definition err_eqb (a b : err) : bool :=
  match a, b with
  | NotValid, NotValid | Incomplete, Incomplete | BufferOverflow, BufferOverflow
  | CapacityExceeded, CapacityExceeded | EncodingNotSupported, EncodingNotSupported
  | DuplicateSatellite, DuplicateSatellite | InvalidSatelliteId, InvalidSatelliteId
  | InvalidSignalId, InvalidSignalId | SatelliteMismatch, SatelliteMismatch
  | DuplicateSatelliteSignal, DuplicateSatelliteSignal
  | InvalidSatelliteSignalCount, InvalidSatelliteSignalCount
  | OutOfRange, OutOfRange | InvalidUtf8String, InvalidUtf8String => true
  | _, _ => false
  end.

(** Result of running a piece of Rust: a value, an [Err], or a panic.
    [Panic] is produced by exactly the operations that panic in a build with overflow checks:
    arithmetic overflow, over-wide shifts, index out of range, push beyond capacity, unwrap of None. *)
Inductive outcome (A : Type) :=
| Ok (a : A) | Err (e : err) | Panic.
Arguments Ok {A} a.
Arguments Err {A} e.
Arguments Panic {A}.

Definition bind {A B} (m : outcome A) (f : A -> outcome B) : outcome B :=
  match m with Ok a => f a | Err e => Err e | Panic => Panic end.

Declare Scope out_scope.
Delimit Scope out_scope with out.
Notation "x <- m ;; k" := (bind m (fun x => k)) (at level 61, m at next level, right associativity) : out_scope.
Notation "' pat <- m ;; k" := (bind m (fun x => match x with pat => k end))
  (at level 61, pat pattern, m at next level, right associativity) : out_scope.
Open Scope out_scope.

Definition is_panic {A} (o : outcome A) : bool := match o with Panic => true | _ => false end.
Definition is_ok {A} (o : outcome A) : bool := match o with Ok _ => true | _ => false end.

(** Integer carriers of the bit reader/writer (src/df/bit_value.rs). *)
Inductive ckind := KU | KI | KSM.
Definition ckind_eqb (a b : ckind) : bool :=
  match a, b with KU, KU | KI, KI | KSM, KSM => true | _, _ => false end.

(** Rust data types of df! rows. *)
Inductive dty := DU8 | DU16 | DU32 | DUsize | DI8 | DI16 | DI32 | DF32 | DF64.

(** A res/bias constant: an integer, or a float given exactly as mantissa * 2^exponent
    (already rounded to the row's float type by the translator, as rustc does). *)
Inductive num := NInt (z : Z) | NFlt (m e : Z).

Record field_spec := {
  f_dt : dty;            (* $dt *)
  f_ck : ckind;          (* kind of $it *)
  f_cbits : Z;           (* width of $it's carrier *)
  f_len : Z;             (* $len *)
  f_res : option num;
  f_bias : option num;
  f_round : bool;
  f_inv : option Z;      (* Some i: DataType = Option<dt>, i = invalid marker (carrier value) *)
  f_cap : option Z       (* count fields only; informational *)
}.

Inductive gnss := G_gps | G_glo | G_gal | G_sbas | G_qzss | G_bds | G_navic.

(** Message layouts: one constructor per macro of src/msg/mod.rs and per hand-written codec. *)
Inductive frag :=
| FField (fs : field_spec)                                   (* df! row *)
| FStr (cap len_bits : Z)                                    (* df_88591_string_with_len! *)
| FUtf8                                                      (* df_msg1029_utf8_str *)
| FBias1059 | FBias1065 | FBias1230                          (* hand-written codecs *)
| FStruct (fields : list frag)                               (* msg! *)
| FLenMid (f1 : list frag) (len_field : field_spec) (f2 : list frag) (elem : frag) (cap : Z)
                                                             (* msg_len_middle! + frag_vec! *)
| FVecLen (elem : frag) (cap len_bits : Z)                   (* frag_vec_with_len! *)
| FGrid16 (elem : frag)                                      (* frag_grid16p! *)
| FMsm (g : gnss) (sat_rows sig_rows : list field_spec).     (* msm_data_seg_frag! + sat + sig *)

(** Generic value tree (the Rust structs, positionally).  Floats are carried as IEEE bit
    patterns; [VStr] is a string as a list of Unicode scalar values. *)
Inductive val :=
| VInt (z : Z)
| VF32 (bits : Z)
| VF64 (bits : Z)
| VNone
| VSome (v : val)
| VList (l : list val)
| VStruct (l : list val)
| VStr (cps : list Z)
| VSig (band cp : Z).

Inductive message :=
| MEmpty | MCorrupt | MUnsupp (n : Z) | MTyped (n : Z) (v : val).

(** Byte strings are [list Z] with every element in 0..255. *)
Definition byte_ok (b : Z) : bool := (0 <=? b) && (b <? 256).
Definition bytes_ok (d : list Z) : bool := forallb byte_ok d.

Definition zlen {A} (l : list A) : Z := Z.of_nat (length l).
Definition znth (l : list Z) (i : Z) : Z := nth (Z.to_nat i) l 0.
Definition zfirstn {A} (n : Z) (l : list A) : list A := firstn (Z.to_nat n) l.
Definition zskipn {A} (n : Z) (l : list A) : list A := skipn (Z.to_nat n) l.

(** Decoded messages are fixed points (C01, plain layouts): a value decoded from any buffer position,
    encoded anywhere there is room, decodes to itself again.  By induction over the layout, from the
    bit-level frame properties of Assembler::put / Parser::parse (C07) and the field round trip (C08). *)
From Coq Require Import ZArith List Lia Bool.
From Flocq Require Import Core BinarySingleNaN.
From RtcmModel Require Import Types BitIO Floats Field SigId Text Bias Msm Layout.
From RtcmProofs Require Import ListZ FragInd EncodeLen BitProofs DecodeBound DecodeTotal FieldProofs TextProofs.
Import ListNotations.
Open Scope Z_scope.

(** two buffers of the same length that agree on the bit positions a <= g < b *)
Definition agree (d1 d2 : list Z) (a b : Z) : Prop :=
  zlen d1 = zlen d2 /\ forall g, a <= g < b -> bitat d1 g = bitat d2 g.

Lemma agree_refl d a b : agree d d a b.
Proof. split; [reflexivity|intros; reflexivity]. Qed.
Lemma agree_sub d1 d2 a b a' b' : agree d1 d2 a b -> a <= a' -> b' <= b -> agree d1 d2 a' b'.
Proof. intros [L H] Ha Hb. split; [exact L|]. intros g Hg. apply H. lia. Qed.
Lemma agree_trans d1 d2 d3 a b : agree d1 d2 a b -> agree d2 d3 a b -> agree d1 d3 a b.
Proof. intros [L1 H1] [L2 H2]. split; [lia|]. intros g Hg. rewrite H1, H2 by exact Hg. reflexivity. Qed.

(** a write leaves every earlier bit alone *)
Lemma put_frame k bits d o c len d' o' : 8 <= bits -> 1 <= len <= bits -> 0 <= o -> bytes_ok d = true ->
  put k bits d o c len = Ok (d', o') ->
  o' = o + len /\ o + len <= 8 * zlen d /\ zlen d' = zlen d /\ bytes_ok d' = true /\ agree d d' 0 o.
Proof.
  intros Hb Hl Ho Hbd P.
  assert (Hfit : o + len <= 8 * zlen d).
  { unfold put in P. destruct (Z.ltb_spec (zlen d * 8) (o + len)); [discriminate|lia]. }
  assert (Hs : exists c', sign_fix_rev k bits c len = Ok c').
  { unfold put in P. destruct (zlen d * 8 <? o + len); [discriminate|].
    destruct (sign_fix_rev k bits c len) as [c'|e|]; cbn [bind] in P; try discriminate. exists c'. reflexivity. }
  destruct Hs as [c' Hs].
  destruct (put_bits k bits d o c len c' Hb Hl Ho Hfit Hbd Hs) as [d2 [P2 [L2 [B2 Hbits]]]].
  rewrite P in P2. inversion P2; subst d2 o'.
  split; [reflexivity|]. split; [exact Hfit|]. split; [exact L2|]. split; [exact B2|].
  split; [symmetry; exact L2|]. intros g Hg. rewrite Hbits by lia.
  destruct (Z.leb_spec o g); [lia|]. reflexivity.
Qed.

(** a read depends only on the bits of its field *)
Lemma parse_ext k bits d1 d2 o len : 8 <= bits -> 1 <= len <= bits -> 0 <= o ->
  bytes_ok d1 = true -> bytes_ok d2 = true -> agree d1 d2 o (o + len) ->
  parse k bits d1 o len = parse k bits d2 o len.
Proof.
  intros Hb Hl Ho B1 B2 [L H].
  destruct (Z_lt_ge_dec (8 * zlen d1) (o + len)) as [Hov|Hfit].
  - rewrite !parse_overflow by lia. reflexivity.
  - destruct (parse_bits k bits d1 o len Hb Hl Ho ltac:(lia) B1) as [v1 [C1 [T1 P1]]].
    destruct (parse_bits k bits d2 o len Hb Hl Ho ltac:(lia) B2) as [v2 [C2 [T2 P2]]].
    rewrite P1, P2. replace v2 with v1; [reflexivity|].
    apply (canon_eq_bits k bits); [lia|exact C1|exact C2|]. intros m Hm. rewrite T1, T2 by exact Hm.
    destruct (Z.ltb_spec m len); [|reflexivity]. cbn [andb]. apply H. lia.
Qed.

(** ---------- fields ---------- *)
Lemma decode_field_ext fs d1 d2 o : field_dec_ok fs = true -> 0 <= o -> bytes_ok d1 = true -> bytes_ok d2 = true ->
  agree d1 d2 o (o + f_len fs) -> decode_field fs d1 o = decode_field fs d2 o.
Proof.
  intros Hok Ho B1 B2 Ha. destruct (field_dec_ok_widths fs Hok) as [W1 W2].
  unfold decode_field. rewrite (parse_ext _ _ d1 d2 o _ W1 W2 Ho B1 B2 Ha). reflexivity.
Qed.

Lemma encode_field_frame fs d o v d' o' : field_dec_ok fs = true -> 0 <= o -> bytes_ok d = true ->
  encode_field fs (d, o) v = Ok (d', o') ->
  o' = o + f_len fs /\ o + f_len fs <= 8 * zlen d /\ zlen d' = zlen d /\ bytes_ok d' = true /\ agree d d' 0 o.
Proof.
  intros Hok Ho Hb E. destruct (field_dec_ok_widths fs Hok) as [W1 W2].
  unfold encode_field in E.
  destruct (f_inv fs) as [i|].
  - destruct v; try discriminate.
    + eapply put_frame; eassumption.
    + destruct (encode_core fs v) as [c|e|]; cbn [bind] in E; try discriminate. eapply put_frame; eassumption.
  - destruct (encode_core fs v) as [c|e|]; cbn [bind] in E; try discriminate. eapply put_frame; eassumption.
Qed.

(** ---------- descriptor strings ---------- *)
Definition nz_byte (b : Z) : Prop := 1 <= b <= 255.

Lemma parse_str_bytes_spec data : bytes_ok data = true -> forall n off acc bs off', 0 <= off ->
  parse_str_bytes n data off acc = Ok (bs, off') ->
  exists l, bs = rev acc ++ l /\ length l = n /\ Forall nz_byte l /\ off' = off + 8 * Z.of_nat n.
Proof.
  intros Hb. induction n as [|n IH]; intros off acc bs off' Ho H; cbn [parse_str_bytes] in H.
  - inversion H; subst. exists []. rewrite app_nil_r. repeat split; [constructor|lia].
  - destruct (parse KU 8 data off 8) as [[v o1]|e|] eqn:P; cbn [bind] in H; try discriminate.
    destruct (parse_range KU 8 data off 8 v o1 ltac:(lia) ltac:(lia) Ho Hb P) as [Hr [-> _]]. cbn [representable] in Hr.
    destruct (IH (off + 8) _ bs off' ltac:(lia) H) as [l [E [Ll [Fl Eo]]]].
    exists ((if v =? 0 then 164 else v) :: l). cbn [rev] in E. rewrite <- app_assoc in E. cbn [app] in E.
    split; [exact E|]. split; [cbn [length]; lia|]. split; [|lia].
    constructor; [|exact Fl]. unfold nz_byte. destruct (Z.eqb_spec v 0); lia.
Qed.

Lemma parse_str_bytes_ext d1 d2 : bytes_ok d1 = true -> bytes_ok d2 = true -> forall n off acc, 0 <= off ->
  agree d1 d2 off (off + 8 * Z.of_nat n) -> parse_str_bytes n d1 off acc = parse_str_bytes n d2 off acc.
Proof.
  intros B1 B2. induction n as [|n IH]; intros off acc Ho Ha; cbn [parse_str_bytes]; [reflexivity|].
  rewrite (parse_ext KU 8 d1 d2 off 8 ltac:(lia) ltac:(lia) Ho B1 B2 ltac:(apply (agree_sub _ _ _ _ off (off + 8) Ha); lia)).
  destruct (parse KU 8 d2 off 8) as [[v o1]|e|] eqn:P; cbn [bind]; try reflexivity.
  apply parse_off in P. destruct P as [-> _]. apply IH; [lia|]. apply (agree_sub _ _ _ _ _ _ Ha); lia.
Qed.

(** writing non-zero bytes and reading them back *)
Lemma put_bytes_fix : forall l d o acc, Forall nz_byte l -> bytes_ok d = true -> 0 <= o -> o + 8 * zlen l <= 8 * zlen d ->
  exists d', put_bytes (d, o) l = Ok (d', o + 8 * zlen l) /\ bytes_ok d' = true /\ zlen d' = zlen d /\ agree d d' 0 o /\
             parse_str_bytes (length l) d' o acc = Ok (rev acc ++ l, o + 8 * zlen l).
Proof.
  induction l as [|b l IH]; intros d o acc Hl Hb Ho Hfit.
  - exists d. unfold zlen. cbn [length put_bytes parse_str_bytes]. replace (o + 8 * Z.of_nat 0) with o by lia. rewrite app_nil_r.
    repeat split; try assumption; try reflexivity.
  - inversion Hl as [|? ? Hb0 Hl']; subst. rewrite zlen_cons in *. unfold nz_byte in Hb0.
    assert (Hr : representable KU 8 b) by (cbn [representable]; lia).
    destruct (put_parse_roundtrip KU 8 d o b 8 ltac:(lia) ltac:(lia) Ho ltac:(pose proof (zlen_nonneg l); lia) Hb Hr) as [d1 [Pu Pa]].
    destruct (put_frame KU 8 d o b 8 d1 _ ltac:(lia) ltac:(lia) Ho Hb Pu) as [_ [_ [L1 [B1 A1]]]].
    destruct (IH d1 (o + 8) ((if b =? 0 then 164 else b) :: acc) Hl' B1 ltac:(lia) ltac:(lia)) as [d2 [Pu2 [B2 [L2 [A2 Pa2]]]]].
    exists d2. cbn [put_bytes fst snd]. rewrite Pu. cbn [bind].
    replace (o + 8 * (1 + zlen l)) with (o + 8 + 8 * zlen l) by lia.
    split; [exact Pu2|]. split; [exact B2|]. split; [lia|]. split.
    + eapply agree_trans; [exact A1|]. apply (agree_sub _ _ 0 (o + 8)); [exact A2|lia|lia].
    + cbn [length parse_str_bytes].
      rewrite <- (parse_ext KU 8 d1 d2 o 8 ltac:(lia) ltac:(lia) Ho B1 B2 ltac:(apply (agree_sub _ _ 0 (o + 8)); [exact A2|lia|lia])), Pa. cbn [bind].
      rewrite Pa2. destruct (Z.eqb_spec b 0) as [|_]; [lia|]. cbn [rev]. rewrite <- app_assoc. reflexivity.
Qed.

Lemma map_to_char_nz l : Forall nz_byte l -> map to_char l = l.
Proof. induction 1 as [|b l Hb _ IH]; [reflexivity|]. cbn [map]. rewrite IH. unfold to_char, nz_byte in *. destruct (Z.eqb_spec b 0); [lia|reflexivity]. Qed.
Lemma map_from_char_nz l : Forall nz_byte l -> map from_char l = l.
Proof. induction 1 as [|b l Hb _ IH]; [reflexivity|]. cbn [map]. rewrite IH. rewrite from_char_id by exact Hb. reflexivity. Qed.

Lemma decode_str_ext cap lb d1 d2 off v off' : 1 <= lb <= 8 -> bytes_ok d1 = true -> bytes_ok d2 = true -> 0 <= off ->
  decode_str cap lb d1 off = Ok (v, off') -> agree d1 d2 off off' -> decode_str cap lb d2 off = Ok (v, off').
Proof.
  intros Hl B1 B2 Ho H Ha. unfold decode_str in *.
  destruct (parse KU 8 d1 off lb) as [[len o1]|e|] eqn:P; cbn [bind] in H; try discriminate.
  destruct (cap <? len) eqn:Ec; [discriminate|].
  destruct (parse_str_bytes (Z.to_nat len) d1 o1 []) as [[bs o2]|e|] eqn:E; cbn [bind] in H; try discriminate. inversion H; subst.
  destruct (parse_range KU 8 d1 off lb len o1 ltac:(lia) ltac:(lia) Ho B1 P) as [Hr [-> _]]. cbn [representable] in Hr.
  destruct (parse_str_bytes_spec d1 B1 (Z.to_nat len) (off + lb) [] bs off' ltac:(lia) E) as [l [_ [_ [_ Eo]]]].
  rewrite <- (parse_ext KU 8 d1 d2 off lb ltac:(lia) ltac:(lia) Ho B1 B2 ltac:(apply (agree_sub _ _ _ _ off (off + lb) Ha); lia)), P. cbn [bind].
  rewrite Ec. rewrite <- (parse_str_bytes_ext d1 d2 B1 B2 (Z.to_nat len) (off + lb) [] ltac:(lia) ltac:(apply (agree_sub _ _ _ _ (off + lb) (off + lb + 8 * Z.of_nat (Z.to_nat len)) Ha); lia)), E. reflexivity.
Qed.

Lemma decode_str_fix cap lb data off v off' : 1 <= lb <= 8 -> 0 <= cap -> bytes_ok data = true -> 0 <= off ->
  decode_str cap lb data off = Ok (v, off') ->
  forall d o, bytes_ok d = true -> 0 <= o -> o + (off' - off) <= 8 * zlen d ->
  exists d', encode_str cap lb (d, o) v = Ok (d', o + (off' - off)) /\ bytes_ok d' = true /\ zlen d' = zlen d /\
             agree d d' 0 o /\ decode_str cap lb d' o = Ok (v, o + (off' - off)).
Proof.
  intros Hl Hc Hb Ho H d o Hbd Hoo Hfit. unfold decode_str in H.
  destruct (parse KU 8 data off lb) as [[len o1]|e|] eqn:P; cbn [bind] in H; try discriminate.
  destruct (cap <? len) eqn:Ec; [discriminate|]. apply Z.ltb_ge in Ec.
  destruct (parse_str_bytes (Z.to_nat len) data o1 []) as [[bs o2]|e|] eqn:E; cbn [bind] in H; try discriminate. inversion H; subst.
  destruct (parse_range KU 8 data off lb len o1 ltac:(lia) ltac:(lia) Ho Hb P) as [Hr [-> _]]. cbn [representable] in Hr.
  destruct (parse_str_bytes_spec data Hb (Z.to_nat len) (off + lb) [] bs off' ltac:(lia) E) as [l [El [Ll [Fl Eo]]]]. cbn [rev app] in El. subst bs off'.
  assert (Hzl : zlen l = len) by (unfold zlen; rewrite Ll; lia).
  rewrite Z2Nat.id in Hfit |- * by lia.
  unfold df88591_chars. rewrite (map_to_char_nz l Fl).
  assert (Hfrom : df88591_from_str cap l = l).
  { rewrite df88591_from_str_spec by exact Hc. rewrite firstn_all2 by (unfold zlen in Hzl; lia). apply map_from_char_nz. exact Fl. }
  assert (H256 : len mod 256 = len).
  { apply Z.mod_small. split; [lia|]. apply Z.lt_le_trans with (2 ^ lb); [lia|]. change 256 with (2 ^ 8). apply Z.pow_le_mono_r; lia. }
  destruct (put_parse_roundtrip KU 8 d o len lb ltac:(lia) ltac:(lia) Hoo ltac:(lia) Hbd Hr) as [d1 [Pu Pa]].
  destruct (put_frame KU 8 d o len lb d1 _ ltac:(lia) ltac:(lia) Hoo Hbd Pu) as [_ [_ [L1 [B1 A1]]]].
  destruct (put_bytes_fix l d1 (o + lb) [] Fl B1 ltac:(lia) ltac:(lia)) as [d2 [Pu2 [B2 [L2 [A2 Pa2]]]]].
  exists d2. unfold encode_str, decode_str. cbn [fst snd]. rewrite Hfrom, Hzl, H256, Pu. cbn [bind].
  replace (o + (off + lb + 8 * len - off)) with (o + lb + 8 * zlen l) by lia.
  split; [exact Pu2|]. split; [exact B2|]. split; [lia|]. split.
  - eapply agree_trans; [exact A1|]. apply (agree_sub _ _ 0 (o + lb)); [exact A2|lia|lia].
  - rewrite <- (parse_ext KU 8 d1 d2 o lb ltac:(lia) ltac:(lia) Hoo B1 B2 ltac:(apply (agree_sub _ _ 0 (o + lb)); [exact A2|lia|lia])), Pa. cbn [bind].
    destruct (Z.ltb_spec cap len); [lia|]. rewrite <- Ll. rewrite Pa2. cbn [bind rev app].
    unfold df88591_chars. rewrite (map_to_char_nz l Fl). reflexivity.
Qed.

(** ---------- layouts ---------- *)
Definition len_field_ok (fs : field_spec) : bool :=
  match f_dt fs, f_ck fs, f_res fs, f_bias fs, f_inv fs with
  | DUsize, KU, None, None, None => true
  | _, _, _, _, _ => false
  end.

Lemma len_field_int fs : len_field_ok fs = true -> is_int_field fs = true.
Proof. unfold len_field_ok, is_int_field. destruct (f_dt fs), (f_ck fs), (f_res fs), (f_bias fs), (f_inv fs); try discriminate; reflexivity. Qed.

Lemma len_field_nonneg fs data off n off' : field_dec_ok fs = true -> len_field_ok fs = true ->
  bytes_ok data = true -> 0 <= off -> decode_field fs data off = Ok (VInt n, off') -> 0 <= n.
Proof.
  intros Hok Hl Hb Ho D. destruct (field_dec_ok_widths fs Hok) as [W1 W2].
  unfold len_field_ok in Hl.
  destruct (f_dt fs) eqn:Edt; try discriminate. destruct (f_ck fs) eqn:Eck; try discriminate.
  destruct (f_res fs) eqn:Eres; try discriminate. destruct (f_bias fs) eqn:Ebias; try discriminate. destruct (f_inv fs) eqn:Einv; try discriminate.
  unfold decode_field in D. rewrite Eck in D.
  destruct (parse KU (f_cbits fs) data off (f_len fs)) as [[c o1]|e|] eqn:P; cbn [bind] in D; try discriminate.
  destruct (parse_range _ _ _ _ _ _ _ W1 W2 Ho Hb P) as [Hr _]. cbn [representable] in Hr.
  rewrite Einv in D. unfold decode_core in D. rewrite Edt, Eres, Ebias in D. cbn [dty_int num_int idec_core fst snd bind] in D.
  inversion D; subst. unfold wrapc. cbn [signed_kind andb]. apply Z.mod_pos_bound. lia.
Qed.

Section Plain.
  Variable sigt : gnss -> sigtable.
  Variable ssr59 ssr65 : sigtable.
  Variable cap59 cap65 : Z.
  Notation dec := (decode_frag sigt ssr59 ssr65 cap59 cap65).
  Notation enc := (encode_frag sigt ssr59 ssr65 cap59 cap65).

  Fixpoint plain (f : frag) : bool :=
    match f with
    | FField fs => field_rt_ok fs && field_dec_ok fs
    | FStr cap lb => (1 <=? lb) && (lb <=? 8) && (0 <=? cap)
    | FStruct l => (fix all (l : list frag) : bool := match l with [] => true | x :: r => plain x && all r end) l
    | FLenMid f1 lenf f2 elem cap =>
        (fix all (l : list frag) : bool := match l with [] => true | x :: r => plain x && all r end) f1
        && (field_rt_ok lenf && field_dec_ok lenf && len_field_ok lenf)
        && (fix all (l : list frag) : bool := match l with [] => true | x :: r => plain x && all r end) f2
        && plain elem
    | FVecLen elem _ lb => (1 <=? lb) && (lb <=? 16) && plain elem
    | FGrid16 elem => plain elem
    | _ => false
    end.
  Lemma all_plain_eq l : (fix all (l : list frag) : bool := match l with [] => true | x :: r => plain x && all r end) l = forallb plain l.
  Proof. induction l as [|x r IH]; [reflexivity|]. cbn [forallb]. f_equal; exact IH. Qed.

  Lemma plain_dec_ok : forall f, plain f = true -> frag_dec_ok f = true.
  Proof.
    apply (frag_ind' (fun f => plain f = true -> frag_dec_ok f = true)); cbn [plain frag_dec_ok]; try discriminate.
    - intros fs H. apply andb_true_iff in H. tauto.
    - intros cap lb H. apply andb_true_iff in H. tauto.
    - intros l Hl H. rewrite all_plain_eq in H. rewrite all_dec_ok_eq. rewrite forallb_forall in *. rewrite Forall_forall in Hl. intros x Hx. apply Hl; [exact Hx|apply H; exact Hx].
    - intros f1 lenf f2 elem cap H1 H2 He H. rewrite (all_plain_eq f1), (all_plain_eq f2) in H. rewrite (all_dec_ok_eq f1), (all_dec_ok_eq f2).
      apply andb_true_iff in H. destruct H as [H Pe]. apply andb_true_iff in H. destruct H as [H P2]. apply andb_true_iff in H. destruct H as [P1 Pl].
      apply andb_true_iff in Pl. destruct Pl as [Pl Pl3]. apply andb_true_iff in Pl. destruct Pl as [Pl1 Pl2].
      rewrite Forall_forall in H1, H2. rewrite forallb_forall in P1, P2.
      assert (A1 : forallb frag_dec_ok f1 = true) by (rewrite forallb_forall; intros x Hx; apply H1; [exact Hx|apply P1; exact Hx]).
      assert (A2 : forallb frag_dec_ok f2 = true) by (rewrite forallb_forall; intros x Hx; apply H2; [exact Hx|apply P2; exact Hx]).
      rewrite A1, A2, Pl2, (len_field_int lenf Pl3), (He Pe). reflexivity.
    - intros elem cap lb He H. apply andb_true_iff in H. destruct H as [H Pe]. rewrite H. cbn [andb]. apply He. exact Pe.
    - intros elem He H. apply He. exact H.
  Qed.

  Notation go_dec := (fun data => fix go (fl : list frag) (off : Z) {struct fl} : outcome (list val * Z) :=
         match fl with
         | [] => Ok ([], off)
         | f' :: fl' => '(x, off1) <- dec f' data off ;; '(r, off2) <- go fl' off1 ;; Ok (x :: r, off2)
         end).
  Notation el_dec := (fun elem data => fix elems (n : nat) (off : Z) {struct n} : outcome (list val * Z) :=
         match n with
         | O => Ok ([], off)
         | S n' => '(x, o1) <- dec elem data off ;; '(r, o2) <- elems n' o1 ;; Ok (x :: r, o2)
         end).
  Notation go_enc := (fix go (fl : list frag) (vs : list val) (st : astate) {struct fl} : outcome astate :=
         match fl, vs with
         | [], [] => Ok st
         | f' :: fl', v' :: vs' => st' <- enc f' st v' ;; go fl' vs' st'
         | _, _ => Panic
         end).
  Notation el_enc := (fun elem => fix elems (l : list val) (st : astate) {struct l} : outcome astate :=
         match l with
         | [] => Ok st
         | x :: r => st' <- enc elem st x ;; elems r st'
         end).

  (** decoding depends only on the bits it consumes *)
  Definition ext_at (f : frag) : Prop :=
    plain f = true -> forall d1 d2 off v off', bytes_ok d1 = true -> bytes_ok d2 = true -> 0 <= off ->
      dec f d1 off = Ok (v, off') -> agree d1 d2 off off' -> dec f d2 off = Ok (v, off').

  Lemma total_of f : plain f = true -> forall data off, bytes_ok data = true -> 0 <= off ->
    forall v off', dec f data off = Ok (v, off') -> off <= off'.
  Proof. intros Hp data off Hb Ho. exact (proj2 (decode_frag_total sigt ssr59 ssr65 cap59 cap65 f (plain_dec_ok f Hp) data off Hb Ho)). Qed.

  Lemma list_mono fl : forallb plain fl = true -> forall data off, bytes_ok data = true -> 0 <= off ->
    forall vs off', go_dec data fl off = Ok (vs, off') -> off <= off'.
  Proof.
    intros Hp data off Hb Ho.
    assert (Hd : forallb (frag_dec_ok) fl = true) by (rewrite forallb_forall in *; intros x Hx; apply plain_dec_ok; apply Hp; exact Hx).
    assert (Ht : Forall (total_at sigt ssr59 ssr65 cap59 cap65) fl) by (apply Forall_forall; intros x _; apply decode_frag_total).
    exact (proj2 (decode_list_total sigt ssr59 ssr65 cap59 cap65 fl Ht Hd data off Hb Ho)).
  Qed.

  Lemma elems_mono elem : plain elem = true -> forall data, bytes_ok data = true -> forall n off, 0 <= off ->
    forall l off', el_dec elem data n off = Ok (l, off') -> off <= off'.
  Proof.
    intros Hp data Hb n off Ho.
    exact (proj2 (decode_elems_total sigt ssr59 ssr65 cap59 cap65 elem (decode_frag_total _ _ _ _ _ elem) (plain_dec_ok elem Hp) data Hb n off Ho)).
  Qed.

  Lemma list_ext : forall fl, Forall ext_at fl -> forallb plain fl = true ->
    forall d1 d2 off vs off', bytes_ok d1 = true -> bytes_ok d2 = true -> 0 <= off ->
      go_dec d1 fl off = Ok (vs, off') -> agree d1 d2 off off' -> go_dec d2 fl off = Ok (vs, off').
  Proof.
    induction 1 as [|f fl Hf _ IH]; intros Hp d1 d2 off vs off' B1 B2 Ho H Ha; [exact H|].
    cbn [forallb] in Hp. apply andb_true_iff in Hp. destruct Hp as [Hp1 Hp2].
    destruct (dec f d1 off) as [[x o1]|e|] eqn:E1; cbn [bind] in H; try discriminate.
    destruct (go_dec d1 fl o1) as [[r o2]|e|] eqn:E2; cbn [bind] in H; try discriminate. inversion H; subst.
    pose proof (total_of f Hp1 d1 off B1 Ho x o1 E1) as M1.
    pose proof (list_mono fl Hp2 d1 o1 B1 ltac:(lia) r off' E2) as M2.
    rewrite (Hf Hp1 d1 d2 off x o1 B1 B2 Ho E1 ltac:(apply (agree_sub _ _ _ _ off o1 Ha); lia)). cbn [bind].
    rewrite (IH Hp2 d1 d2 o1 r off' B1 B2 ltac:(lia) E2 ltac:(apply (agree_sub _ _ _ _ o1 off' Ha); lia)). reflexivity.
  Qed.

  Lemma elems_ext elem : ext_at elem -> plain elem = true ->
    forall d1 d2, bytes_ok d1 = true -> bytes_ok d2 = true -> forall n off l off', 0 <= off ->
      el_dec elem d1 n off = Ok (l, off') -> agree d1 d2 off off' -> el_dec elem d2 n off = Ok (l, off').
  Proof.
    intros He Hp d1 d2 B1 B2. induction n as [|n IH]; intros off l off' Ho H Ha; [exact H|].
    destruct (dec elem d1 off) as [[x o1]|e|] eqn:E1; cbn [bind] in H; try discriminate.
    destruct (el_dec elem d1 n o1) as [[r o2]|e|] eqn:E2; cbn [bind] in H; try discriminate. inversion H; subst.
    pose proof (total_of elem Hp d1 off B1 Ho x o1 E1) as M1.
    pose proof (elems_mono elem Hp d1 B1 n o1 ltac:(lia) r off' E2) as M2.
    rewrite (He Hp d1 d2 off x o1 B1 B2 Ho E1 ltac:(apply (agree_sub _ _ _ _ off o1 Ha); lia)). cbn [bind].
    rewrite (IH o1 r off' ltac:(lia) E2 ltac:(apply (agree_sub _ _ _ _ o1 off' Ha); lia)). reflexivity.
  Qed.

  Theorem decode_frag_ext : forall f, ext_at f.
  Proof.
    apply frag_ind'; unfold ext_at; cbn [plain]; try discriminate.
    - intros fs Hp d1 d2 off v off' B1 B2 Ho H Ha. apply andb_true_iff in Hp. destruct Hp as [_ Hok].
      cbn [decode_frag] in *. pose proof (decode_field_off _ _ _ _ _ H) as ->.
      rewrite <- (decode_field_ext fs d1 d2 off Hok Ho B1 B2 Ha). exact H.
    - intros cap lb Hp d1 d2 off v off' B1 B2 Ho H Ha. apply andb_true_iff in Hp. destruct Hp as [Hp _]. apply andb_true_iff in Hp. destruct Hp as [L1 L2]. apply Z.leb_le in L1, L2.
      cbn [decode_frag] in *. exact (decode_str_ext cap lb d1 d2 off v off' ltac:(lia) B1 B2 Ho H Ha).
    - intros l Hl Hp d1 d2 off v off' B1 B2 Ho H Ha. rewrite all_plain_eq in Hp. cbn [decode_frag] in *.
      destruct (go_dec d1 l off) as [[vs o1]|e|] eqn:E; cbn [bind] in H; try discriminate. inversion H; subst.
      rewrite (list_ext l Hl Hp d1 d2 off vs off' B1 B2 Ho E Ha). reflexivity.
    - intros f1 lenf f2 elem cap H1 H2 He Hp d1 d2 off v off' B1 B2 Ho H Ha. rewrite (all_plain_eq f1), (all_plain_eq f2) in Hp.
      apply andb_true_iff in Hp. destruct Hp as [Hp Pe]. apply andb_true_iff in Hp. destruct Hp as [Hp P2]. apply andb_true_iff in Hp. destruct Hp as [P1 Pl].
      apply andb_true_iff in Pl. destruct Pl as [Pl Pl3]. apply andb_true_iff in Pl. destruct Pl as [Pl1 Pl2].
      cbn [decode_frag] in *.
      destruct (go_dec d1 f1 off) as [[vs1 o1]|e|] eqn:E1; cbn [bind] in H; try discriminate.
      destruct (decode_field lenf d1 o1) as [[lenv o2]|e|] eqn:El; cbn [bind] in H; try discriminate.
      destruct lenv as [n| | | | | | | |]; try discriminate.
      destruct (go_dec d1 f2 o2) as [[vs2 o3]|e|] eqn:E2; cbn [bind] in H; try discriminate.
      destruct (cap <? n) eqn:Ecap; [discriminate|].
      destruct (el_dec elem d1 (Z.to_nat n) o3) as [[l o4]|e|] eqn:E3; cbn [bind] in H; try discriminate. inversion H; subst.
      pose proof (list_mono f1 P1 d1 off B1 Ho vs1 o1 E1) as M1.
      pose proof (decode_field_off _ _ _ _ _ El) as ->. destruct (field_dec_ok_widths lenf Pl2) as [_ Wl].
      pose proof (list_mono f2 P2 d1 (o1 + f_len lenf) B1 ltac:(lia) vs2 o3 E2) as M2.
      pose proof (elems_mono elem Pe d1 B1 _ o3 ltac:(lia) l off' E3) as M3.
      rewrite (list_ext f1 H1 P1 d1 d2 off vs1 o1 B1 B2 Ho E1 ltac:(apply (agree_sub _ _ _ _ off o1 Ha); lia)). cbn [bind].
      rewrite <- (decode_field_ext lenf d1 d2 o1 Pl2 ltac:(lia) B1 B2 ltac:(apply (agree_sub _ _ _ _ o1 (o1 + f_len lenf) Ha); lia)), El. cbn [bind].
      rewrite (list_ext f2 H2 P2 d1 d2 (o1 + f_len lenf) vs2 o3 B1 B2 ltac:(lia) E2 ltac:(apply (agree_sub _ _ _ _ (o1 + f_len lenf) o3 Ha); lia)). cbn [bind].
      rewrite Ecap.
      rewrite (elems_ext elem He Pe d1 d2 B1 B2 _ o3 l off' ltac:(lia) E3 ltac:(apply (agree_sub _ _ _ _ o3 off' Ha); lia)). reflexivity.
    - intros elem cap lb He Hp d1 d2 off v off' B1 B2 Ho H Ha.
      apply andb_true_iff in Hp. destruct Hp as [Hp Pe]. apply andb_true_iff in Hp. destruct Hp as [L1 L2]. apply Z.leb_le in L1, L2.
      cbn [decode_frag] in *.
      destruct (parse KU 16 d1 off lb) as [[len o1]|e|] eqn:P; cbn [bind] in H; try discriminate.
      destruct (cap <? len) eqn:Ecap; [discriminate|].
      destruct (el_dec elem d1 (Z.to_nat len) o1) as [[l o2]|e|] eqn:E3; cbn [bind] in H; try discriminate. inversion H; subst.
      pose proof (parse_off _ _ _ _ _ _ _ P) as [-> _].
      pose proof (elems_mono elem Pe d1 B1 _ (off + lb) ltac:(lia) l off' E3) as M3.
      rewrite <- (parse_ext KU 16 d1 d2 off lb ltac:(lia) ltac:(lia) Ho B1 B2 ltac:(apply (agree_sub _ _ _ _ off (off + lb) Ha); lia)), P. cbn [bind]. rewrite Ecap.
      rewrite (elems_ext elem He Pe d1 d2 B1 B2 _ (off + lb) l off' ltac:(lia) E3 ltac:(apply (agree_sub _ _ _ _ (off + lb) off' Ha); lia)). reflexivity.
    - intros elem He Hp d1 d2 off v off' B1 B2 Ho H Ha.
      change (dec (FGrid16 elem) d1 off) with ('(l, off1) <- el_dec elem d1 16%nat off ;; Ok (VList l, off1)) in H.
      change (dec (FGrid16 elem) d2 off) with ('(l, off1) <- el_dec elem d2 16%nat off ;; Ok (VList l, off1)).
      remember 16%nat as n16 eqn:Hn16. clear Hn16.
      destruct (el_dec elem d1 n16 off) as [[l o2]|e|] eqn:E3; cbn [bind] in H; try discriminate. inversion H; subst.
      rewrite (elems_ext elem He Hp d1 d2 B1 B2 _ _ l off' Ho E3 Ha). reflexivity.
  Qed.

  (** ---------- decoded values are fixed points ---------- *)
  Definition fix_at (f : frag) : Prop :=
    plain f = true -> forall data off v off', bytes_ok data = true -> 0 <= off -> dec f data off = Ok (v, off') ->
    forall d o, bytes_ok d = true -> 0 <= o -> o + (off' - off) <= 8 * zlen d ->
    exists d', enc f (d, o) v = Ok (d', o + (off' - off)) /\ bytes_ok d' = true /\ zlen d' = zlen d /\
               agree d d' 0 o /\ dec f d' o = Ok (v, o + (off' - off)).

  Lemma list_len : forall fl data off vs off', go_dec data fl off = Ok (vs, off') -> length vs = length fl.
  Proof.
    induction fl as [|f fl IH]; intros data off vs off' H; [inversion H; reflexivity|].
    destruct (dec f data off) as [[x o1]|e|]; cbn [bind] in H; try discriminate.
    destruct (go_dec data fl o1) as [[r o2]|e|] eqn:E2; cbn [bind] in H; try discriminate. inversion H; subst.
    cbn [length]. f_equal. eapply IH. exact E2.
  Qed.
  Lemma elems_len elem data : forall n off l off', el_dec elem data n off = Ok (l, off') -> length l = n.
  Proof.
    induction n as [|n IH]; intros off l off' H; [inversion H; reflexivity|].
    destruct (dec elem data off) as [[x o1]|e|]; cbn [bind] in H; try discriminate.
    destruct (el_dec elem data n o1) as [[r o2]|e|] eqn:E2; cbn [bind] in H; try discriminate. inversion H; subst.
    cbn [length]. f_equal. eapply IH. exact E2.
  Qed.

  Lemma list_fix : forall fl, Forall fix_at fl -> forallb plain fl = true ->
    forall data off vs off', bytes_ok data = true -> 0 <= off -> go_dec data fl off = Ok (vs, off') ->
    forall d o, bytes_ok d = true -> 0 <= o -> o + (off' - off) <= 8 * zlen d ->
    exists d', go_enc fl vs (d, o) = Ok (d', o + (off' - off)) /\ bytes_ok d' = true /\ zlen d' = zlen d /\
               agree d d' 0 o /\ go_dec d' fl o = Ok (vs, o + (off' - off)).
  Proof.
    induction 1 as [|f fl Hf _ IH]; intros Hp data off vs off' Hb Ho H d o Hbd Hoo Hfit.
    - inversion H; subst. exists d. replace (o + (off' - off')) with o by lia.
      split; [reflexivity|]. split; [exact Hbd|]. split; [reflexivity|]. split; [apply agree_refl|reflexivity].
    - cbn [forallb] in Hp. apply andb_true_iff in Hp. destruct Hp as [Hp1 Hp2].
      destruct (dec f data off) as [[x o1]|e|] eqn:E1; cbn [bind] in H; try discriminate.
      destruct (go_dec data fl o1) as [[r o2]|e|] eqn:E2; cbn [bind] in H; try discriminate. inversion H; subst.
      pose proof (total_of f Hp1 data off Hb Ho x o1 E1) as M1.
      pose proof (list_mono fl Hp2 data o1 Hb ltac:(lia) r off' E2) as M2.
      destruct (Hf Hp1 data off x o1 Hb Ho E1 d o Hbd Hoo ltac:(lia)) as [d1 [En1 [B1 [L1 [A1 D1]]]]].
      destruct (IH Hp2 data o1 r off' Hb ltac:(lia) E2 d1 (o + (o1 - off)) B1 ltac:(lia) ltac:(lia)) as [d2 [En2 [B2 [L2 [A2 D2]]]]].
      exists d2. rewrite En1. cbn [bind]. replace (o + (off' - off)) with (o + (o1 - off) + (off' - o1)) by lia.
      split; [exact En2|]. split; [exact B2|]. split; [lia|]. split.
      + eapply agree_trans; [exact A1|]. apply (agree_sub _ _ 0 (o + (o1 - off))); [exact A2|lia|lia].
      + rewrite (decode_frag_ext f Hp1 d1 d2 o x (o + (o1 - off)) B1 B2 Hoo D1 ltac:(apply (agree_sub _ _ 0 (o + (o1 - off))); [exact A2|lia|lia])).
        cbn [bind]. rewrite D2. reflexivity.
  Qed.

  Lemma elems_fix elem : fix_at elem -> plain elem = true ->
    forall data, bytes_ok data = true -> forall n off l off', 0 <= off -> el_dec elem data n off = Ok (l, off') ->
    forall d o, bytes_ok d = true -> 0 <= o -> o + (off' - off) <= 8 * zlen d ->
    exists d', el_enc elem l (d, o) = Ok (d', o + (off' - off)) /\ bytes_ok d' = true /\ zlen d' = zlen d /\
               agree d d' 0 o /\ el_dec elem d' n o = Ok (l, o + (off' - off)).
  Proof.
    intros He Hp data Hb. induction n as [|n IH]; intros off l off' Ho H d o Hbd Hoo Hfit.
    - inversion H; subst. exists d. replace (o + (off' - off')) with o by lia.
      split; [reflexivity|]. split; [exact Hbd|]. split; [reflexivity|]. split; [apply agree_refl|reflexivity].
    - destruct (dec elem data off) as [[x o1]|e|] eqn:E1; cbn [bind] in H; try discriminate.
      destruct (el_dec elem data n o1) as [[r o2]|e|] eqn:E2; cbn [bind] in H; try discriminate. inversion H; subst.
      pose proof (total_of elem Hp data off Hb Ho x o1 E1) as M1.
      pose proof (elems_mono elem Hp data Hb n o1 ltac:(lia) r off' E2) as M2.
      destruct (He Hp data off x o1 Hb Ho E1 d o Hbd Hoo ltac:(lia)) as [d1 [En1 [B1 [L1 [A1 D1]]]]].
      destruct (IH o1 r off' ltac:(lia) E2 d1 (o + (o1 - off)) B1 ltac:(lia) ltac:(lia)) as [d2 [En2 [B2 [L2 [A2 D2]]]]].
      exists d2. rewrite En1. cbn [bind]. replace (o + (off' - off)) with (o + (o1 - off) + (off' - o1)) by lia.
      split; [exact En2|]. split; [exact B2|]. split; [lia|]. split.
      + eapply agree_trans; [exact A1|]. apply (agree_sub _ _ 0 (o + (o1 - off))); [exact A2|lia|lia].
      + rewrite (decode_frag_ext elem Hp d1 d2 o x (o + (o1 - off)) B1 B2 Hoo D1 ltac:(apply (agree_sub _ _ 0 (o + (o1 - off))); [exact A2|lia|lia])).
        cbn [bind]. rewrite D2. reflexivity.
  Qed.

  Lemma list_ext' fl : forallb plain fl = true ->
    forall d1 d2 off vs off', bytes_ok d1 = true -> bytes_ok d2 = true -> 0 <= off ->
      go_dec d1 fl off = Ok (vs, off') -> agree d1 d2 off off' -> go_dec d2 fl off = Ok (vs, off').
  Proof. apply list_ext. apply Forall_forall. intros x _. apply decode_frag_ext. Qed.

  Lemma firstn_app_exact {A} (a b : list A) n : length a = n -> firstn n (a ++ b) = a.
  Proof. intros <-. rewrite firstn_app, Nat.sub_diag, firstn_all. cbn. apply app_nil_r. Qed.
  Lemma skipn_app_exact {A} (a b : list A) n : length a = n -> skipn n (a ++ b) = b.
  Proof. intros <-. rewrite skipn_app, Nat.sub_diag, skipn_all. reflexivity. Qed.

  Theorem decoded_fixed_point : forall f, fix_at f.
  Proof.
    apply frag_ind'; unfold fix_at; cbn [plain]; try discriminate.
    - (* field *)
      intros fs Hp data off v off' Hb Ho H d o Hbd Hoo Hfit. apply andb_true_iff in Hp. destruct Hp as [Hrt Hok].
      cbn [decode_frag encode_frag] in *. pose proof (decode_field_off _ _ _ _ _ H) as ->.
      replace (o + (off + f_len fs - off)) with (o + f_len fs) in * by lia.
      destruct (field_value_roundtrip fs data off v _ d o Hrt Hok Hb Ho H Hbd Hoo Hfit) as [d' [E D]].
      destruct (encode_field_frame fs d o v d' _ Hok Hoo Hbd E) as [_ [_ [L [B A]]]].
      exists d'. repeat split; try assumption; apply A.
    - (* descriptor string *)
      intros cap lb Hp data off v off' Hb Ho H d o Hbd Hoo Hfit. apply andb_true_iff in Hp. destruct Hp as [Hp L3]. apply andb_true_iff in Hp. destruct Hp as [L1 L2]. apply Z.leb_le in L1, L2, L3.
      cbn [decode_frag encode_frag] in *. exact (decode_str_fix cap lb data off v off' ltac:(lia) L3 Hb Ho H d o Hbd Hoo Hfit).
    - (* struct *)
      intros l Hl Hp data off v off' Hb Ho H d o Hbd Hoo Hfit. rewrite all_plain_eq in Hp. cbn [decode_frag] in H.
      destruct (go_dec data l off) as [[vs o1]|e|] eqn:E; cbn [bind] in H; try discriminate. inversion H; subst.
      destruct (list_fix l Hl Hp data off vs off' Hb Ho E d o Hbd Hoo Hfit) as [d' [En [B [L [A D]]]]].
      exists d'. cbn [encode_frag decode_frag]. split; [exact En|]. split; [exact B|]. split; [exact L|]. split; [exact A|].
      rewrite D. reflexivity.
    - (* length in the middle *)
      intros f1 lenf f2 elem cap H1 H2 He Hp data off v off' Hb Ho H d o Hbd Hoo Hfit.
      rewrite (all_plain_eq f1), (all_plain_eq f2) in Hp.
      apply andb_true_iff in Hp. destruct Hp as [Hp Pe]. apply andb_true_iff in Hp. destruct Hp as [Hp P2]. apply andb_true_iff in Hp. destruct Hp as [P1 Pl].
      apply andb_true_iff in Pl. destruct Pl as [Pl Pl3]. apply andb_true_iff in Pl. destruct Pl as [Pl1 Pl2].
      cbn [decode_frag] in H.
      destruct (go_dec data f1 off) as [[vs1 o1]|e|] eqn:E1; cbn [bind] in H; try discriminate.
      destruct (decode_field lenf data o1) as [[lenv o2]|e|] eqn:El; cbn [bind] in H; try discriminate.
      destruct lenv as [n| | | | | | | |]; try discriminate.
      destruct (go_dec data f2 o2) as [[vs2 o3]|e|] eqn:E2; cbn [bind] in H; try discriminate.
      destruct (cap <? n) eqn:Ecap; [discriminate|].
      destruct (el_dec elem data (Z.to_nat n) o3) as [[l o4]|e|] eqn:E3; cbn [bind] in H; try discriminate. inversion H; subst.
      pose proof (list_mono f1 P1 data off Hb Ho vs1 o1 E1) as M1.
      pose proof (len_field_nonneg lenf data o1 n o2 Pl2 Pl3 Hb ltac:(lia) El) as Hn0.
      pose proof (decode_field_off _ _ _ _ _ El) as Eo2. subst o2. destruct (field_dec_ok_widths lenf Pl2) as [_ Wl].
      pose proof (list_mono f2 P2 data (o1 + f_len lenf) Hb ltac:(lia) vs2 o3 E2) as M2.
      pose proof (elems_mono elem Pe data Hb _ o3 ltac:(lia) l off' E3) as M3.
      pose proof (list_len f1 data off vs1 o1 E1) as Ln1. pose proof (list_len f2 data _ vs2 o3 E2) as Ln2.
      pose proof (elems_len elem data _ o3 l off' E3) as Ln3.
      assert (Hzl : zlen l = n) by (unfold zlen; rewrite Ln3; lia).
      (* encode *)
      destruct (list_fix f1 H1 P1 data off vs1 o1 Hb Ho E1 d o Hbd Hoo ltac:(lia)) as [d1 [En1 [B1 [L1 [A1 D1]]]]].
      set (oa := o + (o1 - off)) in *.
      destruct (field_value_roundtrip lenf data o1 (VInt n) _ d1 oa Pl1 Pl2 Hb ltac:(lia) El B1 ltac:(unfold oa; lia) ltac:(unfold oa; lia)) as [d2 [En2 D2]].
      destruct (encode_field_frame lenf d1 oa (VInt n) d2 _ Pl2 ltac:(unfold oa; lia) B1 En2) as [_ [_ [L2 [B2 A2]]]].
      set (ob := oa + f_len lenf) in *.
      destruct (list_fix f2 H2 P2 data (o1 + f_len lenf) vs2 o3 Hb ltac:(lia) E2 d2 ob B2 ltac:(unfold ob, oa; lia) ltac:(unfold ob, oa; lia)) as [d3 [En3 [B3 [L3 [A3 D3]]]]].
      set (oc := ob + (o3 - (o1 + f_len lenf))) in *.
      destruct (elems_fix elem He Pe data Hb _ o3 l off' ltac:(lia) E3 d3 oc B3 ltac:(unfold oc, ob, oa; lia) ltac:(unfold oc, ob, oa; lia)) as [d4 [En4 [B4 [L4 [A4 D4]]]]].
      assert (Hend : oc + (off' - o3) = o + (off' - off)) by (unfold oc, ob, oa; lia).
      exists d4. cbn [encode_frag decode_frag].
      rewrite (firstn_app_exact vs1 _ _ Ln1), (skipn_app_exact vs1 _ _ Ln1), (firstn_app_exact vs2 _ _ Ln2).
      replace (length f1 + length f2)%nat with (length (vs1 ++ vs2)) by (rewrite app_length; lia).
      rewrite app_assoc, (skipn_app_exact (vs1 ++ vs2) _ _ eq_refl).
      rewrite Hzl, Ecap. rewrite En1. cbn [bind]. fold oa. rewrite En2. cbn [bind]. fold ob. rewrite En3. cbn [bind]. fold oc.
      rewrite En4, Hend. split; [reflexivity|]. split; [exact B4|]. split; [lia|]. split.
      + eapply agree_trans; [exact A1|]. eapply agree_trans; [apply (agree_sub _ _ 0 oa); [exact A2|lia|unfold oa; lia]|].
        eapply agree_trans; [apply (agree_sub _ _ 0 ob); [exact A3|lia|unfold ob, oa; lia]|].
        apply (agree_sub _ _ 0 oc); [exact A4|lia|unfold oc, ob, oa; lia].
      + assert (A24 : agree d2 d4 0 ob).
        { eapply agree_trans; [exact A3|]. apply (agree_sub _ _ 0 oc); [exact A4|lia|unfold oc; lia]. }
        assert (A14 : agree d1 d4 0 oa).
        { eapply agree_trans; [exact A2|]. apply (agree_sub _ _ 0 ob); [exact A24|lia|unfold ob; lia]. }
        rewrite (list_ext' f1 P1 d1 d4 o vs1 oa B1 B4 Hoo D1 ltac:(apply (agree_sub _ _ 0 oa); [exact A14|lia|lia])). cbn [bind].
        rewrite <- (decode_field_ext lenf d2 d4 oa Pl2 ltac:(unfold oa; lia) B2 B4 ltac:(apply (agree_sub _ _ 0 ob); [exact A24|unfold oa; lia|unfold ob; lia])), D2. cbn [bind].
        fold ob. rewrite (list_ext' f2 P2 d3 d4 ob vs2 oc B3 B4 ltac:(unfold ob, oa; lia) D3 ltac:(apply (agree_sub _ _ 0 oc); [exact A4|unfold ob, oa; lia|lia])). cbn [bind].
        rewrite Ecap. rewrite D4, Hend. cbn [bind]. rewrite <- app_assoc. reflexivity.
    - (* count-prefixed list *)
      intros elem cap lb He Hp data off v off' Hb Ho H d o Hbd Hoo Hfit.
      apply andb_true_iff in Hp. destruct Hp as [Hp Pe]. apply andb_true_iff in Hp. destruct Hp as [L1 L2]. apply Z.leb_le in L1, L2.
      cbn [decode_frag] in H.
      destruct (parse KU 16 data off lb) as [[len o1]|e|] eqn:P; cbn [bind] in H; try discriminate.
      destruct (cap <? len) eqn:Ecap; [discriminate|].
      destruct (el_dec elem data (Z.to_nat len) o1) as [[l o2]|e|] eqn:E3; cbn [bind] in H; try discriminate. inversion H; subst.
      destruct (parse_range KU 16 data off lb len o1 ltac:(lia) ltac:(lia) Ho Hb P) as [Hr [-> _]]. cbn [representable] in Hr.
      pose proof (elems_mono elem Pe data Hb _ (off + lb) ltac:(lia) l off' E3) as M3.
      pose proof (elems_len elem data _ _ l off' E3) as Ln3.
      assert (Hzl : zlen l = len) by (unfold zlen; rewrite Ln3; lia).
      assert (Hlen16 : len mod 65536 = len).
      { apply Z.mod_small. split; [lia|]. apply Z.lt_le_trans with (2 ^ lb); [lia|]. change 65536 with (2 ^ 16). apply Z.pow_le_mono_r; lia. }
      destruct (put_parse_roundtrip KU 16 d o len lb ltac:(lia) ltac:(lia) Hoo ltac:(lia) Hbd Hr) as [d1 [Pu Pa]].
      destruct (put_frame KU 16 d o len lb d1 _ ltac:(lia) ltac:(lia) Hoo Hbd Pu) as [_ [_ [Ld1 [B1 A1]]]].
      destruct (elems_fix elem He Pe data Hb _ (off + lb) l off' ltac:(lia) E3 d1 (o + lb) B1 ltac:(lia) ltac:(lia)) as [d2 [En2 [B2 [Ld2 [A2 D2]]]]].
      exists d2. cbn [encode_frag decode_frag fst snd]. rewrite Hzl, Ecap, Hlen16, Pu. cbn [bind].
      replace (o + (off' - off)) with (o + lb + (off' - (off + lb))) by lia.
      split; [exact En2|]. split; [exact B2|]. split; [lia|]. split.
      + eapply agree_trans; [exact A1|]. apply (agree_sub _ _ 0 (o + lb)); [exact A2|lia|lia].
      + rewrite <- (parse_ext KU 16 d1 d2 o lb ltac:(lia) ltac:(lia) Hoo B1 B2 ltac:(apply (agree_sub _ _ 0 (o + lb)); [exact A2|lia|lia])), Pa. cbn [bind].
        rewrite Ecap, D2. reflexivity.
    - (* 16-element grid *)
      intros elem He Hp data off v off' Hb Ho H d o Hbd Hoo Hfit.
      change (dec (FGrid16 elem) data off) with ('(l, off1) <- el_dec elem data 16%nat off ;; Ok (VList l, off1)) in H.
      remember 16%nat as n16 eqn:Hn16.
      destruct (el_dec elem data n16 off) as [[l o2]|e|] eqn:E3; cbn [bind] in H; try discriminate. inversion H; subst v o2.
      pose proof (elems_len elem data _ _ l off' E3) as Ln3.
      destruct (elems_fix elem He Hp data Hb _ off l off' Ho E3 d o Hbd Hoo Hfit) as [d2 [En2 [B2 [Ld2 [A2 D2]]]]].
      exists d2.
      change (dec (FGrid16 elem) d2 o) with ('(l, off1) <- el_dec elem d2 16%nat o ;; Ok (VList l, off1)).
      rewrite <- Hn16. rewrite D2. cbn [bind encode_frag].
      assert (Hz : zlen l =? 16 = true) by (unfold zlen; rewrite Ln3, Hn16; reflexivity).
      rewrite Hz. cbn [negb]. split; [exact En2|]. split; [exact B2|]. split; [exact Ld2|]. split; [exact A2|reflexivity].
  Qed.
End Plain.

(** ---------- whatever the encoder accepts, the decoder reads (C01, first sentence, plain layouts) ---------- *)
Lemma sign_fix_not_err k bits v len e : sign_fix k bits v len <> Err e.
Proof.
  destruct k; cbn [sign_fix]; unfold usub, shl; try discriminate.
  - destruct (1 <=? len); cbn [bind]; [|discriminate]. destruct ((0 <=? len - 1) && (len - 1 <? bits)); cbn [bind]; [|discriminate].
    destruct (_ || _); [discriminate|]. destruct ((0 <=? len) && (len <? bits)); cbn [bind]; discriminate.
  - destruct (1 <=? len); cbn [bind]; [|discriminate]. destruct ((0 <=? len - 1) && (len - 1 <? bits)); cbn [bind]; [|discriminate].
    destruct (_ =? 0); [discriminate|]. cbn [bind]. destruct (in_carrier _ _ _); discriminate.
Qed.

Lemma parse_ok k bits data off len : 8 <= bits -> 1 <= len <= bits -> 0 <= off -> off + len <= 8 * zlen data -> bytes_ok data = true ->
  exists c, parse k bits data off len = Ok (c, off + len).
Proof.
  intros Hb Hl Ho Hfit Hbd. destruct (parse_bits k bits data off len Hb Hl Ho Hfit Hbd) as [v [Hc [_ P]]]. rewrite P.
  pose proof (sign_fix_no_panic k bits v len Hb Hl Hc) as Np.
  destruct (sign_fix k bits v len) as [c|e|] eqn:E; [exists c; reflexivity|exfalso; exact (sign_fix_not_err _ _ _ _ _ E)|contradiction].
Qed.

Lemma encode_field_decodes fs d o v d' o' : field_rt_ok fs = true -> field_dec_ok fs = true -> bytes_ok d = true -> 0 <= o ->
  encode_field fs (d, o) v = Ok (d', o') ->
  o' = o + f_len fs /\ bytes_ok d' = true /\ zlen d' = zlen d /\ agree d d' 0 o /\ exists v', decode_field fs d' o = Ok (v', o').
Proof.
  intros Hrt Hok Hb Ho E. destruct (field_dec_ok_widths fs Hok) as [W1 W2].
  destruct (encode_field_frame fs d o v d' o' Hok Ho Hb E) as [-> [Hfit [L [B A]]]].
  split; [reflexivity|]. split; [exact B|]. split; [exact L|]. split; [exact A|].
  destruct (parse_ok (f_ck fs) (f_cbits fs) d' o (f_len fs) W1 W2 Ho ltac:(lia) B) as [c P].
  destruct (field_roundtrip fs d' o c _ Hrt Hok B Ho P) as [v' [D _]]. exists v'. exact D.
Qed.

Lemma len_field_rt fs d o n d' o' : field_dec_ok fs = true -> len_field_ok fs = true -> bytes_ok d = true -> 0 <= o ->
  0 <= n < 2 ^ f_len fs -> encode_field fs (d, o) (VInt n) = Ok (d', o') -> decode_field fs d' o = Ok (VInt n, o').
Proof.
  intros Hok Hl Hb Ho Hn E. destruct (field_dec_ok_widths fs Hok) as [W1 W2].
  unfold len_field_ok in Hl.
  destruct (f_dt fs) eqn:Edt; try discriminate. destruct (f_ck fs) eqn:Eck; try discriminate.
  destruct (f_res fs) eqn:Eres; try discriminate. destruct (f_bias fs) eqn:Ebias; try discriminate. destruct (f_inv fs) eqn:Einv; try discriminate.
  assert (Hp : 2 ^ f_len fs <= 2 ^ f_cbits fs) by (apply Z.pow_le_mono_r; lia).
  assert (Hp64 : 2 ^ f_len fs <= 2 ^ 64).
  { unfold field_dec_ok in Hok. rewrite Edt, Eres, Ebias, Eck in Hok. cbn [dty_int num_int] in Hok.
    apply andb_true_iff in Hok. destruct Hok as [_ Hs]. unfold int_safe in Hs. cbv zeta in Hs. cbn [fst snd pat_hi pat_lo] in Hs.
    repeat (apply andb_true_iff in Hs; destruct Hs as [Hs ?]).
    match goal with X : in_carrier KU 64 (2 ^ f_len fs - 1) = true |- _ => unfold in_carrier, cmin, cmax in X; cbn [signed_kind] in X; apply andb_true_iff in X; destruct X as [_ X]; apply Z.leb_le in X end. lia. }
  unfold encode_field in E. rewrite Einv in E. unfold encode_core in E. rewrite Edt, Eres, Ebias in E. cbn [dty_int num_int fst snd] in E.
  assert (Hc64 : in_carrier KU 64 n = true) by (unfold in_carrier, cmin, cmax; cbn [signed_kind]; apply andb_true_iff; split; [apply Z.leb_le; lia|apply Z.leb_le; lia]).
  rewrite Hc64 in E. unfold ienc_core in E. cbn [bind] in E. rewrite Eck in E.
  assert (Hw : wrapc KU (f_cbits fs) n = n) by (apply wrapc_in_range; [lia|unfold cmin, cmax; cbn [signed_kind]; lia]).
  rewrite Hw in E.
  assert (Hr : representable KU (f_len fs) n) by (cbn [representable]; lia).
  destruct (put_frame KU (f_cbits fs) d o n (f_len fs) d' o' W1 W2 Ho Hb E) as [-> [Hfit _]].
  destruct (put_parse_roundtrip KU (f_cbits fs) d o n (f_len fs) W1 W2 Ho Hfit Hb Hr) as [d2 [Pu Pa]].
  rewrite E in Pu. inversion Pu; subst d2.
  unfold decode_field. rewrite Eck, Pa. cbn [bind]. unfold decode_core. rewrite Edt, Eres, Ebias. cbn [dty_int num_int idec_core fst snd bind]. rewrite Einv.
  assert (Hw64 : wrapc KU 64 n = n) by (apply wrapc_in_range; [lia|unfold cmin, cmax; cbn [signed_kind]; lia]).
  rewrite Hw64. reflexivity.
Qed.

Lemma skipn_skipn' {A} (a b : nat) (l : list A) : skipn a (skipn b l) = skipn (b + a) l.
Proof. revert l. induction b as [|b IH]; intros l; [reflexivity|]. destruct l as [|x r]; [destruct a; reflexivity|]. cbn [skipn plus]. apply IH. Qed.

(** same shape: lists and structs correspond element by element (so every list keeps its length and order) *)
Definition is_leaf (v : val) : bool := match v with VList _ | VStruct _ => false | _ => true end.
Inductive shape : val -> val -> Prop :=
| sh_list la lb : Forall2 shape la lb -> shape (VList la) (VList lb)
| sh_struct la lb : Forall2 shape la lb -> shape (VStruct la) (VStruct lb)
| sh_leaf a b : is_leaf a = true -> is_leaf b = true -> shape a b.

Lemma encode_field_leaf fs st v st' : encode_field fs st v = Ok st' -> is_leaf v = true.
Proof.
  destruct st as [d o]. unfold encode_field, encode_core. intros H.
  destruct (f_inv fs); [destruct v; try discriminate; reflexivity|].
  destruct (f_dt fs); destruct v; try discriminate; reflexivity.
Qed.
Lemma decode_field_leaf fs d o v o' : decode_field fs d o = Ok (v, o') -> is_leaf v = true.
Proof.
  unfold decode_field. intros H. crush H; inversion H; subst; try reflexivity;
    match goal with E : decode_core _ _ = Ok _ |- _ => unfold decode_core in E; crush E; inversion E; subst; reflexivity end.
Qed.

Section Accept.
  Variable sigt : gnss -> sigtable.
  Variable ssr59 ssr65 : sigtable.
  Variable cap59 cap65 : Z.
  Notation dec := (decode_frag sigt ssr59 ssr65 cap59 cap65).
  Notation enc := (encode_frag sigt ssr59 ssr65 cap59 cap65).

  (** counts cannot wrap: every capacity is below 2^(width of its count field) *)
  Fixpoint counts_ok (f : frag) : bool :=
    match f with
    | FStr cap lb => cap <? 2 ^ lb
    | FStruct l => (fix all (l : list frag) : bool := match l with [] => true | x :: r => counts_ok x && all r end) l
    | FLenMid f1 lenf f2 elem cap =>
        (fix all (l : list frag) : bool := match l with [] => true | x :: r => counts_ok x && all r end) f1
        && (cap <? 2 ^ f_len lenf)
        && (fix all (l : list frag) : bool := match l with [] => true | x :: r => counts_ok x && all r end) f2
        && counts_ok elem
    | FVecLen elem cap lb => (cap <? 2 ^ lb) && counts_ok elem
    | FGrid16 elem => counts_ok elem
    | _ => true
    end.
  Lemma all_counts_eq l : (fix all (l : list frag) : bool := match l with [] => true | x :: r => counts_ok x && all r end) l = forallb counts_ok l.
  Proof. induction l as [|x r IH]; [reflexivity|]. cbn [forallb]. f_equal; exact IH. Qed.

  Notation go_dec := (fun data => fix go (fl : list frag) (off : Z) {struct fl} : outcome (list val * Z) :=
         match fl with
         | [] => Ok ([], off)
         | f' :: fl' => '(x, off1) <- dec f' data off ;; '(r, off2) <- go fl' off1 ;; Ok (x :: r, off2)
         end).
  Notation el_dec := (fun elem data => fix elems (n : nat) (off : Z) {struct n} : outcome (list val * Z) :=
         match n with
         | O => Ok ([], off)
         | S n' => '(x, o1) <- dec elem data off ;; '(r, o2) <- elems n' o1 ;; Ok (x :: r, o2)
         end).
  Notation go_enc := (fix go (fl : list frag) (vs : list val) (st : astate) {struct fl} : outcome astate :=
         match fl, vs with
         | [], [] => Ok st
         | f' :: fl', v' :: vs' => st' <- enc f' st v' ;; go fl' vs' st'
         | _, _ => Panic
         end).
  Notation el_enc := (fun elem => fix elems (l : list val) (st : astate) {struct l} : outcome astate :=
         match l with
         | [] => Ok st
         | x :: r => st' <- enc elem st x ;; elems r st'
         end).

  Definition acc_at (f : frag) : Prop :=
    plain f = true -> counts_ok f = true -> forall d o v d' o', bytes_ok d = true -> 0 <= o ->
      enc f (d, o) v = Ok (d', o') ->
      o <= o' /\ bytes_ok d' = true /\ zlen d' = zlen d /\ agree d d' 0 o /\ exists v', dec f d' o = Ok (v', o') /\ shape v v'.

  Lemma list_acc : forall fl, Forall acc_at fl -> forallb plain fl = true -> forallb counts_ok fl = true ->
    forall vs d o d' o', bytes_ok d = true -> 0 <= o -> go_enc fl vs (d, o) = Ok (d', o') ->
      o <= o' /\ bytes_ok d' = true /\ zlen d' = zlen d /\ agree d d' 0 o /\ exists vs', go_dec d' fl o = Ok (vs', o') /\ Forall2 shape vs vs'.
  Proof.
    induction 1 as [|f fl Hf _ IH]; intros Hp Hc vs d o d' o' Hb Ho H.
    - destruct vs; [|discriminate]. inversion H; subst. split; [lia|]. split; [exact Hb|]. split; [reflexivity|]. split; [apply agree_refl|].
      exists []. split; [reflexivity|constructor].
    - cbn [forallb] in Hp, Hc. apply andb_true_iff in Hp, Hc. destruct Hp as [Hp1 Hp2]. destruct Hc as [Hc1 Hc2].
      destruct vs as [|x vs]; [discriminate|].
      destruct (enc f (d, o) x) as [[d1 o1]|e|] eqn:E1; cbn [bind] in H; try discriminate.
      destruct (Hf Hp1 Hc1 d o x d1 o1 Hb Ho E1) as [M1 [B1 [L1 [A1 [x' [D1 S1]]]]]].
      destruct (IH Hp2 Hc2 vs d1 o1 d' o' B1 ltac:(lia) H) as [M2 [B2 [L2 [A2 [vs' [D2 S2]]]]]].
      split; [lia|]. split; [exact B2|]. split; [lia|]. split.
      + eapply agree_trans; [exact A1|]. apply (agree_sub _ _ 0 o1); [exact A2|lia|lia].
      + exists (x' :: vs'). split; [|constructor; assumption].
        rewrite (decode_frag_ext sigt ssr59 ssr65 cap59 cap65 f Hp1 d1 d' o x' o1 B1 B2 Ho D1 ltac:(apply (agree_sub _ _ 0 o1); [exact A2|lia|lia])).
        cbn [bind]. rewrite D2. reflexivity.
  Qed.

  Lemma elems_acc elem : acc_at elem -> plain elem = true -> counts_ok elem = true ->
    forall l d o d' o', bytes_ok d = true -> 0 <= o -> el_enc elem l (d, o) = Ok (d', o') ->
      o <= o' /\ bytes_ok d' = true /\ zlen d' = zlen d /\ agree d d' 0 o /\ exists l', el_dec elem d' (length l) o = Ok (l', o') /\ Forall2 shape l l'.
  Proof.
    intros He Hp Hc. induction l as [|x l IH]; intros d o d' o' Hb Ho H.
    - inversion H; subst. split; [lia|]. split; [exact Hb|]. split; [reflexivity|]. split; [apply agree_refl|]. exists []. split; [reflexivity|constructor].
    - destruct (enc elem (d, o) x) as [[d1 o1]|e|] eqn:E1; cbn [bind] in H; try discriminate.
      destruct (He Hp Hc d o x d1 o1 Hb Ho E1) as [M1 [B1 [L1 [A1 [x' [D1 S1]]]]]].
      destruct (IH d1 o1 d' o' B1 ltac:(lia) H) as [M2 [B2 [L2 [A2 [l' [D2 S2]]]]]].
      split; [lia|]. split; [exact B2|]. split; [lia|]. split.
      + eapply agree_trans; [exact A1|]. apply (agree_sub _ _ 0 o1); [exact A2|lia|lia].
      + exists (x' :: l'). split; [|constructor; assumption]. cbn [length].
        rewrite (decode_frag_ext sigt ssr59 ssr65 cap59 cap65 elem Hp d1 d' o x' o1 B1 B2 Ho D1 ltac:(apply (agree_sub _ _ 0 o1); [exact A2|lia|lia])).
        cbn [bind]. rewrite D2. reflexivity.
  Qed.
End Accept.

Lemma put_bytes_room : forall l d o d' o', bytes_ok d = true -> 0 <= o -> put_bytes (d, o) l = Ok (d', o') ->
  o' = o + 8 * zlen l /\ (l <> [] -> o' <= 8 * zlen d).
Proof.
  induction l as [|b l IH]; intros d o d' o' Hb Ho H; cbn [put_bytes fst snd] in H.
  - inversion H; subst. unfold zlen; cbn. split; [lia|]. intros X; contradiction.
  - destruct (put KU 8 d o b 8) as [[d1 o1]|e|] eqn:P; cbn [bind] in H; try discriminate.
    destruct (put_frame KU 8 d o b 8 d1 o1 ltac:(lia) ltac:(lia) Ho Hb P) as [-> [Hfit [L1 [B1 _]]]].
    destruct (IH d1 (o + 8) d' o' B1 ltac:(lia) H) as [-> Hr]. rewrite zlen_cons. split; [lia|]. intros _.
    destruct l as [|c l']; [unfold zlen in *; cbn in *; lia|]. rewrite <- L1. apply Hr. discriminate.
Qed.

Lemma encode_str_decodes cap lb d o v d' o' : 1 <= lb <= 8 -> 0 <= cap < 2 ^ lb -> bytes_ok d = true -> 0 <= o ->
  encode_str cap lb (d, o) v = Ok (d', o') ->
  o <= o' /\ bytes_ok d' = true /\ zlen d' = zlen d /\ agree d d' 0 o /\ exists v', decode_str cap lb d' o = Ok (v', o') /\ shape v v'.
Proof.
  intros Hl Hc Hb Ho H. unfold encode_str in H. destruct v as [| | | | | | |cs|]; try discriminate. cbn [fst snd] in H.
  set (bytes := df88591_from_str cap cs) in *.
  assert (Hbytes : bytes = map from_char (firstn (Z.to_nat cap) cs)) by (apply df88591_from_str_spec; lia).
  assert (Fb : Forall nz_byte bytes).
  { rewrite Hbytes. apply Forall_forall. intros x Hx. apply in_map_iff in Hx. destruct Hx as [c [<- _]]. apply from_char_range. }
  assert (Hn : 0 <= zlen bytes <= cap).
  { split; [apply zlen_nonneg|]. rewrite Hbytes. unfold zlen. rewrite map_length. pose proof (firstn_le_length (Z.to_nat cap) cs). lia. }
  assert (H256 : zlen bytes mod 256 = zlen bytes).
  { apply Z.mod_small. split; [lia|]. apply Z.le_lt_trans with cap; [lia|]. apply Z.lt_le_trans with (2 ^ lb); [lia|]. change 256 with (2 ^ 8). apply Z.pow_le_mono_r; lia. }
  rewrite H256 in H.
  destruct (put KU 8 d o (zlen bytes) lb) as [[d1 o1]|e|] eqn:Pu; cbn [bind] in H; try discriminate.
  destruct (put_frame KU 8 d o (zlen bytes) lb d1 o1 ltac:(lia) ltac:(lia) Ho Hb Pu) as [-> [Hfit [L1 [B1 A1]]]].
  assert (Hr : representable KU lb (zlen bytes)) by (cbn [representable]; lia).
  destruct (put_parse_roundtrip KU 8 d o (zlen bytes) lb ltac:(lia) ltac:(lia) Ho Hfit Hb Hr) as [d1' [Pu' Pa]].
  rewrite Pu in Pu'. inversion Pu'; subst d1'.
  destruct (put_bytes_room bytes d1 (o + lb) d' o' B1 ltac:(lia) H) as [-> Hroom].
  assert (Hfit2 : o + lb + 8 * zlen bytes <= 8 * zlen d1).
  { destruct (Z.eq_dec (zlen bytes) 0) as [E0|E0]; [rewrite E0; lia|]. apply Hroom. intros X. apply E0. rewrite X. reflexivity. }
  destruct (put_bytes_fix bytes d1 (o + lb) [] Fb B1 ltac:(lia) Hfit2) as [d2 [Pu2 [B2 [L2 [A2 Pa2]]]]].
  rewrite H in Pu2. inversion Pu2; subst d2.
  split; [lia|]. split; [exact B2|]. split; [lia|]. split.
  - eapply agree_trans; [exact A1|]. apply (agree_sub _ _ 0 (o + lb)); [exact A2|lia|lia].
  - unfold decode_str.
    rewrite <- (parse_ext KU 8 d1 d' o lb ltac:(lia) ltac:(lia) Ho B1 B2 ltac:(apply (agree_sub _ _ 0 (o + lb)); [exact A2|lia|lia])), Pa. cbn [bind].
    destruct (Z.ltb_spec cap (zlen bytes)); [lia|].
    replace (Z.to_nat (zlen bytes)) with (length bytes) by (unfold zlen; lia). rewrite Pa2. cbn [bind]. eexists. split; [reflexivity|]. apply sh_leaf; reflexivity.
Qed.

Section AcceptMain.
  Variable sigt : gnss -> sigtable.
  Variable ssr59 ssr65 : sigtable.
  Variable cap59 cap65 : Z.
  Notation dec := (decode_frag sigt ssr59 ssr65 cap59 cap65).
  Notation enc := (encode_frag sigt ssr59 ssr65 cap59 cap65).
  Notation acc_at := (acc_at sigt ssr59 ssr65 cap59 cap65).
  Notation go_dec := (fun data => fix go (fl : list frag) (off : Z) {struct fl} : outcome (list val * Z) :=
         match fl with
         | [] => Ok ([], off)
         | f' :: fl' => '(x, off1) <- dec f' data off ;; '(r, off2) <- go fl' off1 ;; Ok (x :: r, off2)
         end).
  Notation el_dec := (fun elem data => fix elems (n : nat) (off : Z) {struct n} : outcome (list val * Z) :=
         match n with
         | O => Ok ([], off)
         | S n' => '(x, o1) <- dec elem data off ;; '(r, o2) <- elems n' o1 ;; Ok (x :: r, o2)
         end).
  Notation go_enc := (fix go (fl : list frag) (vs : list val) (st : astate) {struct fl} : outcome astate :=
         match fl, vs with
         | [], [] => Ok st
         | f' :: fl', v' :: vs' => st' <- enc f' st v' ;; go fl' vs' st'
         | _, _ => Panic
         end).
  Notation el_enc := (fun elem => fix elems (l : list val) (st : astate) {struct l} : outcome astate :=
         match l with
         | [] => Ok st
         | x :: r => st' <- enc elem st x ;; elems r st'
         end).

  Theorem accepted_decodes : forall f, acc_at f.
  Proof.
    apply frag_ind'; unfold RoundTrip.acc_at; cbn [plain counts_ok]; try discriminate.
    - (* field *)
      intros fs Hp _ d o v d' o' Hb Ho E. apply andb_true_iff in Hp. destruct Hp as [Hrt Hok].
      cbn [encode_frag decode_frag] in *. destruct (field_dec_ok_widths fs Hok) as [_ W].
      destruct (encode_field_decodes fs d o v d' o' Hrt Hok Hb Ho E) as [-> [B [L [A [v' Dv]]]]].
      split; [lia|]. split; [exact B|]. split; [exact L|]. split; [exact A|]. exists v'. split; [exact Dv|].
      apply sh_leaf; [eapply encode_field_leaf; exact E|eapply decode_field_leaf; exact Dv].
    - (* descriptor string *)
      intros cap lb Hp Hc d o v d' o' Hb Ho E. apply andb_true_iff in Hp. destruct Hp as [Hp L3]. apply andb_true_iff in Hp. destruct Hp as [L1 L2].
      apply Z.leb_le in L1, L2, L3. apply Z.ltb_lt in Hc. cbn [encode_frag decode_frag] in *.
      exact (encode_str_decodes cap lb d o v d' o' ltac:(lia) ltac:(lia) Hb Ho E).
    - (* struct *)
      intros l Hl Hp Hc d o v d' o' Hb Ho E. rewrite all_plain_eq in Hp. rewrite all_counts_eq in Hc. cbn [encode_frag] in E.
      destruct v as [| | | | | |vs| |]; try discriminate.
      destruct (list_acc sigt ssr59 ssr65 cap59 cap65 l Hl Hp Hc vs d o d' o' Hb Ho E) as [M [B [L [A [vs' [D S]]]]]].
      split; [exact M|]. split; [exact B|]. split; [exact L|]. split; [exact A|]. exists (VStruct vs'). split; [cbn [decode_frag]; rewrite D; reflexivity|apply sh_struct; exact S].
    - (* length in the middle *)
      intros f1 lenf f2 elem cap H1 H2 He Hp Hc d o v d' o' Hb Ho E.
      rewrite (all_plain_eq f1), (all_plain_eq f2) in Hp. rewrite (all_counts_eq f1), (all_counts_eq f2) in Hc.
      apply andb_true_iff in Hp. destruct Hp as [Hp Pe]. apply andb_true_iff in Hp. destruct Hp as [Hp P2]. apply andb_true_iff in Hp. destruct Hp as [P1 Pl].
      apply andb_true_iff in Pl. destruct Pl as [Pl Pl3]. apply andb_true_iff in Pl. destruct Pl as [Pl1 Pl2].
      apply andb_true_iff in Hc. destruct Hc as [Hc Ce]. apply andb_true_iff in Hc. destruct Hc as [Hc C2]. apply andb_true_iff in Hc. destruct Hc as [C1 Cl]. apply Z.ltb_lt in Cl.
      cbn [encode_frag] in E. destruct v as [| | | | | |vs| |]; try discriminate.
      destruct (skipn (length f1 + length f2) vs) as [|lv rest] eqn:Esk; [discriminate|].
      destruct lv as [| | | | |l| | |]; try discriminate. destruct rest as [|? ?]; [|discriminate].
      destruct (cap <? zlen l) eqn:Ecap; [discriminate|]. apply Z.ltb_ge in Ecap.
      destruct (go_enc f1 (firstn (length f1) vs) (d, o)) as [[d1 o1]|e|] eqn:E1; cbn [bind] in E; try discriminate.
      destruct (encode_field lenf (d1, o1) (VInt (zlen l))) as [[d2 o2]|e|] eqn:E2; cbn [bind] in E; try discriminate.
      destruct (go_enc f2 (firstn (length f2) (skipn (length f1) vs)) (d2, o2)) as [[d3 o3]|e|] eqn:E3; cbn [bind] in E; try discriminate.
      destruct (list_acc sigt ssr59 ssr65 cap59 cap65 f1 H1 P1 C1 _ d o d1 o1 Hb Ho E1) as [M1 [B1 [L1 [A1 [vs1' [D1 S1]]]]]].
      destruct (encode_field_frame lenf d1 o1 _ d2 o2 Pl2 ltac:(lia) B1 E2) as [-> [Hfit2 [L2 [B2 A2]]]].
      destruct (field_dec_ok_widths lenf Pl2) as [_ Wl].
      pose proof (zlen_nonneg l) as Hl0.
      pose proof (len_field_rt lenf d1 o1 (zlen l) d2 _ Pl2 Pl3 B1 ltac:(lia) ltac:(lia) E2) as D2.
      destruct (list_acc sigt ssr59 ssr65 cap59 cap65 f2 H2 P2 C2 _ d2 (o1 + f_len lenf) d3 o3 B2 ltac:(lia) E3) as [M3 [B3 [L3 [A3 [vs2' [D3 S3]]]]]].
      destruct (elems_acc sigt ssr59 ssr65 cap59 cap65 elem He Pe Ce l d3 o3 d' o' B3 ltac:(lia) E) as [M4 [B4 [L4 [A4 [l' [D4 S4]]]]]].
      split; [lia|]. split; [exact B4|]. split; [lia|]. split.
      + eapply agree_trans; [exact A1|]. eapply agree_trans; [apply (agree_sub _ _ 0 o1); [exact A2|lia|lia]|].
        eapply agree_trans; [apply (agree_sub _ _ 0 (o1 + f_len lenf)); [exact A3|lia|lia]|].
        apply (agree_sub _ _ 0 o3); [exact A4|lia|lia].
      + assert (A24 : agree d2 d' 0 (o1 + f_len lenf)).
        { eapply agree_trans; [exact A3|]. apply (agree_sub _ _ 0 o3); [exact A4|lia|lia]. }
        assert (A14 : agree d1 d' 0 o1).
        { eapply agree_trans; [exact A2|]. apply (agree_sub _ _ 0 (o1 + f_len lenf)); [exact A24|lia|lia]. }
        exists (VStruct (vs1' ++ vs2' ++ [VList l'])). split.
        2:{ apply sh_struct.
            rewrite <- (firstn_skipn (length f1) vs). rewrite <- (firstn_skipn (length f2) (skipn (length f1) vs)).
            rewrite skipn_skipn', Esk.
            apply Forall2_app; [exact S1|]. apply Forall2_app; [exact S3|]. constructor; [apply sh_list; exact S4|constructor]. }
        cbn [decode_frag].
        rewrite (list_ext' sigt ssr59 ssr65 cap59 cap65 f1 P1 d1 d' o vs1' o1 B1 B4 Ho D1 ltac:(apply (agree_sub _ _ 0 o1); [exact A14|lia|lia])). cbn [bind].
        rewrite <- (decode_field_ext lenf d2 d' o1 Pl2 ltac:(lia) B2 B4 ltac:(apply (agree_sub _ _ 0 (o1 + f_len lenf)); [exact A24|lia|lia])), D2. cbn [bind].
        rewrite (list_ext' sigt ssr59 ssr65 cap59 cap65 f2 P2 d3 d' (o1 + f_len lenf) vs2' o3 B3 B4 ltac:(lia) D3 ltac:(apply (agree_sub _ _ 0 o3); [exact A4|lia|lia])). cbn [bind].
        destruct (Z.ltb_spec cap (zlen l)); [lia|].
        replace (Z.to_nat (zlen l)) with (length l) by (unfold zlen; lia). rewrite D4. reflexivity.
    - (* count-prefixed list *)
      intros elem cap lb He Hp Hc d o v d' o' Hb Ho E.
      apply andb_true_iff in Hp. destruct Hp as [Hp Pe]. apply andb_true_iff in Hp. destruct Hp as [L1 L2]. apply Z.leb_le in L1, L2.
      apply andb_true_iff in Hc. destruct Hc as [Cl Ce]. apply Z.ltb_lt in Cl.
      cbn [encode_frag fst snd] in E. destruct v as [| | | | |l| | |]; try discriminate.
      destruct (cap <? zlen l) eqn:Ecap; [discriminate|]. apply Z.ltb_ge in Ecap.
      pose proof (zlen_nonneg l) as Hl0.
      assert (H16 : zlen l mod 65536 = zlen l).
      { apply Z.mod_small. split; [lia|]. apply Z.le_lt_trans with cap; [lia|]. apply Z.lt_le_trans with (2 ^ lb); [lia|]. change 65536 with (2 ^ 16). apply Z.pow_le_mono_r; lia. }
      rewrite H16 in E.
      destruct (put KU 16 d o (zlen l) lb) as [[d1 o1]|e|] eqn:Pu; cbn [bind] in E; try discriminate.
      destruct (put_frame KU 16 d o (zlen l) lb d1 o1 ltac:(lia) ltac:(lia) Ho Hb Pu) as [-> [Hfit [Ld1 [B1 A1]]]].
      assert (Hr : representable KU lb (zlen l)) by (cbn [representable]; lia).
      destruct (put_parse_roundtrip KU 16 d o (zlen l) lb ltac:(lia) ltac:(lia) Ho Hfit Hb Hr) as [d1' [Pu' Pa]].
      rewrite Pu in Pu'. inversion Pu'; subst d1'.
      destruct (elems_acc sigt ssr59 ssr65 cap59 cap65 elem He Pe Ce l d1 (o + lb) d' o' B1 ltac:(lia) E) as [M4 [B4 [L4 [A4 [l' [D4 S4]]]]]].
      split; [lia|]. split; [exact B4|]. split; [lia|]. split.
      + eapply agree_trans; [exact A1|]. apply (agree_sub _ _ 0 (o + lb)); [exact A4|lia|lia].
      + exists (VList l'). split; [|apply sh_list; exact S4]. cbn [decode_frag].
        rewrite <- (parse_ext KU 16 d1 d' o lb ltac:(lia) ltac:(lia) Ho B1 B4 ltac:(apply (agree_sub _ _ 0 (o + lb)); [exact A4|lia|lia])), Pa. cbn [bind].
        destruct (Z.ltb_spec cap (zlen l)); [lia|].
        replace (Z.to_nat (zlen l)) with (length l) by (unfold zlen; lia). rewrite D4. reflexivity.
    - (* 16-element grid *)
      intros elem He Hp Hc d o v d' o' Hb Ho E.
      cbn [encode_frag] in E. destruct v as [| | | | |l| | |]; try discriminate.
      destruct (zlen l =? 16) eqn:E16; cbn [negb] in E; [|discriminate]. apply Z.eqb_eq in E16.
      destruct (elems_acc sigt ssr59 ssr65 cap59 cap65 elem He Hp Hc l d o d' o' Hb Ho E) as [M4 [B4 [L4 [A4 [l' [D4 S4]]]]]].
      split; [exact M4|]. split; [exact B4|]. split; [exact L4|]. split; [exact A4|].
      exists (VList l'). split; [|apply sh_list; exact S4].
      change (dec (FGrid16 elem) d' o) with ('(l, off1) <- el_dec elem d' 16%nat o ;; Ok (VList l, off1)).
      replace 16%nat with (length l) by (unfold zlen in E16; lia). rewrite D4. reflexivity.
  Qed.
End AcceptMain.

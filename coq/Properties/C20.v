(** C20 -- serialising a message with serde and reading it back gives the same message.
    PARTIAL: what a theorem can carry here is the two hand-written impls (Df88591String, ArrayString in
    src/util); every derived impl is serde_derive's output, specified as the identity on the value tree and
    exercised by the SERDE operations of the correspondence only.  Proofs are in Proofs/TextProofs.v. *)
From Coq Require Import ZArith List Lia Bool.
From RtcmModel Require Import Types Text.
From RtcmProofs Require Import ListZ TextProofs.
Import ListNotations.
Open Scope Z_scope.

(** Df88591String<N>: at most N bytes, none of them 0 (the type never stores 0); serialising writes its
    characters through collect_str (no intermediate byte buffer: the D8 fix), deserialising pushes the first
    N characters *)
Theorem C20_88591 : forall N bytes, zlen bytes <= N -> Forall (fun b => 1 <= b <= 255) bytes ->
  de_88591 N (ser_88591 bytes) = bytes.
Proof. intros N bytes H1 H2. apply serde_88591_roundtrip. split; assumption. Qed.

(** ArrayString<N>: a string of at most N bytes of UTF-8 comes back whole *)
Theorem C20_array_string : forall N cs, 0 <= N -> utf8_total cs <= N -> de_array_string N cs = utf8_encode cs.
Proof. exact serde_array_string_roundtrip. Qed.

(** non-vacuity: 31 x U+00E9 (62 bytes of UTF-8) survive in a 31-character descriptor -- the D8 witness *)
Example C20_example : de_88591 31 (ser_88591 (repeat 233 31)) = repeat 233 31.
Proof. reflexivity. Qed.

Print Assumptions C20_88591.
Print Assumptions C20_array_string.

From Coq Require Import Reals ZArith Lia Lra Psatz.
From Flocq Require Import Core Relative.
Open Scope R_scope.
Section CoreRT.
Variables prec emin : Z.
Context {Hp : Prec_gt_0 prec}.
Hypothesis Hprec : (4 <= prec)%Z.
Hypothesis Hemin : (emin + prec <= 0)%Z.
Notation fexp := (FLT_exp emin prec).
Notation rnd := (round radix2 fexp ZnearestE).
Variable r : R.
Hypothesis r_big : bpow radix2 (emin + prec - 1) <= r.
Variable n : Z.
Hypothesis n_pos : (0 < n)%Z.
Hypothesis n_small : (n < 2^(prec-3))%Z.

Lemma r_pos : 0 < r.
Proof. eapply Rlt_le_trans; [apply (bpow_gt_0 radix2)|exact r_big]. Qed.

Let d := rnd (IZR n * r).
Let q := rnd (d / r).

Lemma u_small : /2 * bpow radix2 (-prec+1) * IZR n <= /8.
Proof.
  assert (H: IZR n <= bpow radix2 (prec-3)).
  { rewrite <- (IZR_Zpower radix2) by lia. apply IZR_le. simpl. lia. }
  assert (0 < IZR n) by (apply IZR_lt; lia).
  replace (/8) with (/2 * bpow radix2 (-prec+1) * bpow radix2 (prec-3)).
  2:{ rewrite Rmult_assoc, <- bpow_plus. replace (-prec+1+(prec-3))%Z with (-2)%Z by lia. simpl. lra. }
  apply Rmult_le_compat_l; [|exact H].
  apply Rmult_le_pos; [lra|apply bpow_ge_0].
Qed.

Lemma q_close : Rabs (q - IZR n) <= 3/8.
Proof.
  pose proof r_pos as Hr.
  assert (Hn: 1 <= IZR n) by (apply IZR_le; lia).
  set (u := /2 * bpow radix2 (-prec+1)).
  assert (Hu0: 0 <= u) by (unfold u; apply Rmult_le_pos; [lra|apply bpow_ge_0]).
  pose proof u_small as Hus. fold u in Hus.
  assert (Hu8: u <= /8).
  { apply Rle_trans with (u * IZR n); [|exact Hus]. rewrite <- (Rmult_1_r u) at 1. apply Rmult_le_compat_l; lra. }
  destruct (relative_error_N_FLT_ex radix2 emin prec Hp (fun x => negb (Z.even x)) (IZR n * r)) as [e1 [He1 Hd]].
  { assert (0 <= IZR n * r) by (apply Rmult_le_pos; lra).
    rewrite Rabs_pos_eq by assumption. apply Rle_trans with r; [exact r_big|].
    rewrite <- (Rmult_1_l r) at 1. apply Rmult_le_compat_r; lra. }
  fold u in He1.
  assert (Hdr : d / r = IZR n * (1 + e1)).
  { unfold d. rewrite Hd. field. apply Rgt_not_eq. exact Hr. }
  apply Rabs_le_inv in He1.
  destruct (relative_error_N_FLT_ex radix2 emin prec Hp (fun x => negb (Z.even x)) (d / r)) as [e2 [He2 Hq]].
  { rewrite Hdr.
    assert (H78: 7/8 <= 1 + e1) by lra.
    assert (7/8 <= IZR n * (1 + e1)).
    { apply Rle_trans with (1 * (1+e1)); [lra|]. apply Rmult_le_compat_r; lra. }
    rewrite Rabs_pos_eq by lra.
    apply Rle_trans with (bpow radix2 (-1)).
    - apply bpow_le. unfold Prec_gt_0 in Hp. lia.
    - simpl. lra. }
  fold u in He2. apply Rabs_le_inv in He2.
  unfold q. rewrite Hq, Hdr.
  apply Rabs_le.
  assert (Hn1 : u * IZR n <= /8) by exact Hus.
  replace (IZR n * (1 + e1) * (1 + e2) - IZR n) with (IZR n * e1 + IZR n * e2 + (IZR n * e1) * e2) by ring.
  assert (A1: -(/8) <= IZR n * e1 <= /8).
  { split.
    - apply Rle_trans with (IZR n * - u); [nra|apply Rmult_le_compat_l; lra].
    - apply Rle_trans with (IZR n * u); [apply Rmult_le_compat_l; lra|nra]. }
  assert (A2: -(/8) <= IZR n * e2 <= /8).
  { split.
    - apply Rle_trans with (IZR n * - u); [nra|apply Rmult_le_compat_l; lra].
    - apply Rle_trans with (IZR n * u); [apply Rmult_le_compat_l; lra|nra]. }
  assert (A3: -(/8) <= (IZR n * e1) * e2 <= /8).
  { destruct A1 as [A1a A1b]. destruct He2 as [E2a E2b]. split; nra. }
  split; lra.
Qed.

(* n + k/8 is representable *)
Lemma eighth_format (k : Z) : (0 <= k <= 7)%Z -> generic_format radix2 fexp (IZR n + IZR k / 8).
Proof.
  intros Hk.
  replace (IZR n + IZR k / 8) with (F2R (Float radix2 (8 * n + k) (-3))).
  2:{ unfold F2R; cbn [Fnum Fexp]. rewrite plus_IZR, mult_IZR. change (bpow radix2 (-3)) with (/8). field. }
  apply generic_format_FLT. exists (Float radix2 (8 * n + k) (-3)); cbn [Fnum Fexp]; [reflexivity| |lia].
  assert (2 ^ prec = 8 * 2 ^ (prec - 3))%Z.
  { replace prec with (3 + (prec - 3))%Z at 1 by lia. rewrite Z.pow_add_r by lia. reflexivity. }
  change (Z.abs (8 * n + k) < 2 ^ prec)%Z. rewrite Z.abs_eq by lia. lia.
Qed.

Lemma trunc_ok : Ztrunc (rnd (q + /2)) = n.
Proof.
  pose proof q_close as Hq. apply Rabs_le_inv in Hq.
  assert (L: IZR n + IZR 1 / 8 <= rnd (q + /2)).
  { apply round_ge_generic; [apply FLT_exp_valid; exact Hp|apply valid_rnd_N|apply eighth_format; lia|]. simpl. lra. }
  assert (U: rnd (q + /2) <= IZR n + IZR 7 / 8).
  { apply round_le_generic; [apply FLT_exp_valid; exact Hp|apply valid_rnd_N|apply eighth_format; lia|]. simpl. lra. }
  assert (0 < IZR n) by (apply IZR_lt; lia).
  rewrite Ztrunc_floor by lra.
  apply Zfloor_imp. rewrite plus_IZR. simpl in *. lra.
Qed.
End CoreRT.

"""Run operation lines through the implementation (two profiles) and the extracted model."""
import os, subprocess, threading
from .common import *
from . import build


def _run_file(binary, path, timeout):
    rc, out, err = sh([binary, path], timeout=timeout)
    return rc, out, err


def run_impl(binary, ops, workdir, tag, per_op_s=0.02):
    """-> list of result lines (HANG for everything from the first op that did not return)"""
    os.makedirs(workdir, exist_ok=True)
    p = os.path.join(workdir, "ops-%s.txt" % tag)
    with open(p, "w") as f:
        f.write("\n".join(ops) + "\n")
    timeout = 60 + per_op_s * len(ops)
    rc, out, err = _run_file(binary, p, timeout)
    lines = out.split("\n")
    if lines and lines[-1] == "":
        lines.pop()
    if rc == 124 or len(lines) < len(ops):
        # a hang or a crash (abort): mark the first missing op, re-run the rest one by one is too slow;
        # report HANG/CRASH for the first missing op and continue after it
        res = lines[:len(ops)]
        k = len(res)
        marker = "HANG" if rc == 124 else "CRASH"
        res.append(marker)
        rest = ops[k + 1:]
        if rest:
            res += run_impl(binary, rest, workdir, tag + "r", per_op_s)
        return res[:len(ops)]
    return lines[:len(ops)]


def run_model(ops, workdir, shards=16, per_op_s=0.5):
    """the extracted model, sharded over processes -> list of result lines"""
    os.makedirs(workdir, exist_ok=True)
    n = len(ops)
    if n == 0:
        return []
    shards = max(1, min(shards, (n + 19) // 20))
    # interleave so that expensive ops spread evenly
    parts = [ops[i::shards] for i in range(shards)]
    # every shard writes to its own file: a pipe would block the shards the parent is not currently reading
    procs = []
    for i, part in enumerate(parts):
        p = os.path.join(workdir, "mops-%d.txt" % i)
        with open(p, "w") as f:
            f.write("\n".join(part) + "\n")
        fo = open(os.path.join(workdir, "mout-%d.txt" % i), "w")
        procs.append((subprocess.Popen([build.modelrun_path(), p], stdout=fo, stderr=subprocess.DEVNULL), fo))
    outs = []
    import time as _time
    deadline = _time.time() + 120 + per_op_s * (n / shards)
    for i, (pr, fo) in enumerate(procs):
        timed_out = False
        try:
            pr.wait(timeout=max(1, deadline - _time.time()))
        except subprocess.TimeoutExpired:
            pr.kill()
            pr.wait()
            timed_out = True
        fo.close()
        with open(os.path.join(workdir, "mout-%d.txt" % i)) as f:
            o = f.read()
        if timed_out:
            o += "\nMODELTIMEOUT"
        lines = o.split("\n")
        if lines and lines[-1] == "":
            lines.pop()
        outs.append(lines)
    res = [None] * n
    for i, lines in enumerate(outs):
        idx = list(range(i, n, shards))
        for j, k in enumerate(idx):
            res[k] = lines[j] if j < len(lines) else "MODELMISSING"
    return res

(** The operations of the correspondence protocol (DESIGN.md Appendix B), computed by the model.
    The OCaml driver only parses operation lines and prints these results. *)
From Coq Require Import ZArith List Bool String.
From Flocq Require Import Core BinarySingleNaN.
From RtcmModel Require Import Types BitIO Floats Field SigId Text Bias Msm Layout Crc Frame Scan Message Top.
From RtcmGen Require Import GenFields GenSignals GenLayouts GenMessages.
Import ListNotations.
Open Scope Z_scope.

(** Rust's derived PartialEq on message values: floats by IEEE ==, everything else structurally *)
Definition f32_eq (a b : Z) : bool :=
  match Bcompare (f32_of_bits a) (f32_of_bits b) with Some Eq => true | _ => false end.
Definition f64_eq (a b : Z) : bool :=
  match Bcompare (f64_of_bits a) (f64_of_bits b) with Some Eq => true | _ => false end.

Fixpoint zlist_eqb (a b : list Z) : bool :=
  match a, b with
  | [], [] => true
  | x :: r, y :: s => (x =? y) && zlist_eqb r s
  | _, _ => false
  end.

Fixpoint val_eqb (a b : val) {struct a} : bool :=
  match a, b with
  | VInt x, VInt y => x =? y
  | VF32 x, VF32 y => f32_eq x y
  | VF64 x, VF64 y => f64_eq x y
  | VNone, VNone => true
  | VSome x, VSome y => val_eqb x y
  | VList l, VList m | VStruct l, VStruct m =>
      (fix go (l m : list val) {struct l} : bool :=
         match l, m with
         | [], [] => true
         | x :: r, y :: s => val_eqb x y && go r s
         | _, _ => false
         end) l m
  | VStr x, VStr y => zlist_eqb x y
  | VSig b1 c1, VSig b2 c2 => (b1 =? b2) && (c1 =? c2)
  | _, _ => false
  end.

Definition msg_eqb (a b : message) : bool :=
  match a, b with
  | MEmpty, MEmpty | MCorrupt, MCorrupt => true
  | MUnsupp x, MUnsupp y => x =? y
  | MTyped n v, MTyped k w => (n =? k) && val_eqb v w
  | _, _ => false
  end.

(** every float in the value is finite *)
Fixpoint val_finite (a : val) : bool :=
  match a with
  | VF32 x => ffinite 24 128 (f32_of_bits x)
  | VF64 x => ffinite 53 1024 (f64_of_bits x)
  | VSome x => val_finite x
  | VList l | VStruct l => forallb val_finite l
  | _ => true
  end.
Definition msg_finite (m : message) : bool :=
  match m with MTyped _ v => val_finite v | _ => true end.

(** PUT / PARSE *)
Definition op_put (k : ckind) (bits w off v : Z) (data : list Z) : outcome (list Z * Z) :=
  put k bits data off v w.
Definition op_parse (k : ckind) (bits w off : Z) (data : list Z) : outcome (Z * Z) :=
  parse k bits data off w.

(** big-endian number of the first [w] bits of a byte list *)
Definition be_value (data : list Z) : Z := fold_left (fun acc b => acc * 256 + b) data 0.
Definition first_bits (data : list Z) (w : Z) : Z :=
  be_value data / 2 ^ (8 * zlen data - w).
Fixpoint be_bytes (n : nat) (x : Z) : list Z :=
  match n with
  | O => []
  | S n' => (x / 2 ^ (8 * Z.of_nat n')) mod 256 :: be_bytes n' x
  end.

(** FENC: into a zeroed 16-byte buffer at offset 0; pattern and width *)
Definition op_fenc (fs : field_spec) (v : val) : outcome (Z * Z) :=
  st <- encode_field fs (repeat 0 16, 0) v ;;
  Ok (if snd st =? 0 then 0 else first_bits (fst st) (snd st), snd st).
(** FDEC: pattern placed MSB-first at bit 0 of a 16-byte buffer *)
Definition op_fdec (fs : field_spec) (p w : Z) : outcome (val * Z) :=
  let x := if w =? 0 then 0 else p * 2 ^ (128 - w) in
  decode_field fs (be_bytes 16 x) 0.

(** ROUNDTRIP: E m; D (E m); E (D (E m)); D (E (D (E m))) *)
Inductive rt_result :=
| RT_err (e : err)                              (* first build failed *)
| RT_frameerr1 (e1 : list Z) (e : err)
| RT_e2err (e1 : list Z) (d1 : message) (e : err)
| RT_frameerr2 (e1 : list Z) (d1 : message) (e2 : list Z) (e : err)
| RT_full (e1 : list Z) (d1 : message) (e2 : list Z) (d2 : message).

Definition op_roundtrip (m : message) : outcome rt_result :=
  match t_build_fresh m with
  | Panic => Panic
  | Err e => Ok (RT_err e)
  | Ok e1 =>
      match frame_new e1 with
      | Panic => Panic
      | Err e => Ok (RT_frameerr1 e1 e)
      | Ok f1 =>
          d1 <- t_from_frame f1 ;;
          match t_build_fresh d1 with
          | Panic => Panic
          | Err e => Ok (RT_e2err e1 d1 e)
          | Ok e2 =>
              match frame_new e2 with
              | Panic => Panic
              | Err e => Ok (RT_frameerr2 e1 d1 e2 e)
              | Ok f2 => d2 <- t_from_frame f2 ;; Ok (RT_full e1 d1 e2 d2)
              end
          end
      end
  end.

(** REDECODE: D f; E (D f); D (E (D f)) *)
Inductive rd_result :=
| RD_err (e : err)
| RD_e1err (d1 : message) (e : err)
| RD_frameerr (d1 : message) (e1 : list Z) (e : err)
| RD_full (d1 : message) (e1 : list Z) (d2 : message).

Definition op_redecode (d : list Z) : outcome rd_result :=
  match frame_new d with
  | Panic => Panic
  | Err e => Ok (RD_err e)
  | Ok f =>
      d1 <- t_from_frame f ;;
      match t_build_fresh d1 with
      | Panic => Panic
      | Err e => Ok (RD_e1err d1 e)
      | Ok e1 =>
          match frame_new e1 with
          | Panic => Panic
          | Err e => Ok (RD_frameerr d1 e1 e)
          | Ok f2 => d2 <- t_from_frame f2 ;; Ok (RD_full d1 e1 d2)
          end
      end
  end.

(** BUILDSEQ: all messages through one builder; stops after a panic *)
Fixpoint op_buildseq (b : builder) (ms : list message) : list (outcome (list Z)) :=
  match ms with
  | [] => []
  | m :: r =>
      let '(b', o) := t_build b m in
      match o with
      | Panic => [Panic]
      | _ => o :: op_buildseq b' r
      end
  end.

(** STREAM: the caller of C06 *)
Definition op_stream (ops : list sop) : outcome cstate := cs_run cs_init ops.

(** string conversions of src/util *)
Definition op_str88591 (n : Z) (cps : list Z) : list Z := df88591_from_str n cps.
Definition op_utf8str (n : Z) (cps : list Z) : list Z := array_string_from n cps.

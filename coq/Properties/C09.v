(** C09 -- encoding is total and every emitted frame is well formed.
    Proofs are in Proofs/BuildProofs.v (frame shape), Proofs/SizeProofs.v (size bound), Proofs/BitProofs.v
    (the writer never panics) and Proofs/FrameProofs.v.
    PARTIAL: proved -- every frame returned by build_message is 8..1029 bytes, starts with 0xD3 and six zero
    bits, carries its payload size in the length field and a checksum for which MessageFrame::new accepts it
    (the model's CRC-24Q specification), whatever builder history came before (C12); messages without a wire
    form are refused; the bit writer never panics for any width 1..carrier.  Not proved here: that no encoder
    above the bit writer panics for any constructible value (float/integer conversions, MSM index arithmetic)
    and that the first 12 payload bits are the message number -- both covered by the ENCODE correspondence in
    the two build profiles and the impl-side probes. *)
From Coq Require Import ZArith List Lia Bool.
From RtcmModel Require Import Types BitIO Layout Crc Frame Message Top.
From RtcmGen Require Import GenSignals GenLayouts.
From RtcmProofs Require Import ListZ FrameProofs BuilderProofs SizeProofs BuildProofs BitProofs.
Import ListNotations.
Open Scope Z_scope.

Lemma caps_nonneg : 0 <= SAT_CAP_1059 /\ 0 <= SAT_CAP_1065.
Proof. split; vm_compute; discriminate. Qed.

Lemma layouts_fit : forallb (fun m => frag_wfb (snd m) && (12 + max_bits SAT_CAP_1059 SAT_CAP_1065 (snd m) <=? 8184)) messages = true.
Proof. vm_compute. reflexivity. Qed.

(** every frame a fresh builder returns is well formed, and MessageFrame::new accepts it *)
Theorem C09_well_formed_fresh : forall m fr, t_build_fresh m = Ok fr ->
  8 <= zlen fr <= 1029 /\ znth fr 0 = 211 /\ 0 <= znth fr 1 < 4 /\ frame_length fr = zlen fr - 6 /\
  frame_accept fr /\ exists f, frame_new fr = Ok f.
Proof.
  intros m fr H. unfold t_build_fresh, build_fresh, build in H. cbn [builder_new b_has_run b_data] in H.
  change (211 :: repeat 0 1028) with fresh_data in H.
  destruct (build_on sig_table ssr_table_1059 ssr_table_1065 SAT_CAP_1059 SAT_CAP_1065 messages fresh_data m) as [[fr0 d']|e|] eqn:E; cbn [snd] in H; try discriminate.
  inversion H; subst fr0.
  destruct (build_well_formed sig_table ssr_table_1059 ssr_table_1065 SAT_CAP_1059 SAT_CAP_1065 messages
              (proj1 caps_nonneg) (proj2 caps_nonneg) layouts_fit m fr d' E) as [n [v [lay [_ [_ [H1 [H2 [H3 [H4 H5]]]]]]]]].
  split; [exact H1|]. split; [exact H2|]. split; [exact H3|]. split; [exact H4|]. split; [exact H5|].
  exists (frame_of fr). apply frame_accept_ok. exact H5.
Qed.

(** ... and so is every frame of every reachable builder (any history: C12) *)
Theorem C09_well_formed : forall b m fr,
  reach sig_table ssr_table_1059 ssr_table_1065 SAT_CAP_1059 SAT_CAP_1065 messages b ->
  snd (t_build b m) = Ok fr ->
  8 <= zlen fr <= 1029 /\ znth fr 0 = 211 /\ 0 <= znth fr 1 < 4 /\ frame_length fr = zlen fr - 6 /\
  frame_accept fr /\ exists f, frame_new fr = Ok f.
Proof.
  intros b m fr Hr H. apply (C09_well_formed_fresh m). unfold t_build_fresh, build_fresh.
  rewrite <- (history_independent sig_table ssr_table_1059 ssr_table_1065 SAT_CAP_1059 SAT_CAP_1065 messages b m Hr). exact H.
Qed.

(** Empty, Corrupt and MsgNotSupported have no wire form: they are refused with an error *)
Theorem C09_no_wire_form : forall b m, (forall n v, m <> MTyped n v) -> snd (t_build b m) = Err EncodingNotSupported.
Proof.
  intros b m H. unfold t_build, build.
  rewrite (build_no_wire_form sig_table ssr_table_1059 ssr_table_1065 SAT_CAP_1059 SAT_CAP_1065 messages m H). reflexivity.
Qed.

(** every message the encoder accepts ends within the 8184-bit window: BufferOverflow is unreachable from build_message *)
Theorem C09_fits : forall n lay st v st', In (n, lay) messages -> snd st = 12 ->
  t_encode_frag lay st v = Ok st' -> 12 <= snd st' <= 8184.
Proof.
  intros n lay st v st' Hin H12 H.
  pose proof layouts_fit as Hfit. rewrite forallb_forall in Hfit. specialize (Hfit _ Hin). cbn [snd] in Hfit.
  apply andb_true_iff in Hfit. destruct Hfit as [Hwf Hle]. apply Z.leb_le in Hle.
  apply (encode_frag_grows sig_table ssr_table_1059 ssr_table_1065 SAT_CAP_1059 SAT_CAP_1065 (proj1 caps_nonneg) (proj2 caps_nonneg) lay Hwf) in H. lia.
Qed.

(** the bit writer itself never panics *)
Theorem C09_put_no_panic : forall k bits data offset value len,
  8 <= bits -> 1 <= len <= bits -> 0 <= offset -> bytes_ok data = true -> put k bits data offset value len <> Panic.
Proof. exact put_no_panic. Qed.

Example C09_example :
  exists fr, t_build_fresh (MTyped 1005 (VStruct [VInt 1; VInt 2; VInt 0; VInt 1; VInt 0; VInt 1; VF64 0; VInt 0; VInt 0; VF64 0; VInt 0; VF64 0])) = Ok fr /\ zlen fr = 25.
Proof. eexists. split; vm_compute; reflexivity. Qed.

Print Assumptions C09_well_formed.
Print Assumptions C09_no_wire_form.
Print Assumptions C09_fits.

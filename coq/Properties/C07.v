(** C07 -- bit-field packing is exact: right bits, right order, nothing else touched.
    Proofs are in Proofs/BitProofs.v, about Model/BitIO.v, the statement-by-statement transliteration of
    src/df/assembler.rs, src/df/parser.rs and src/df/bit_value.rs (tied to the code by the PUT/PARSE
    correspondence through the verification hook). *)
From Coq Require Import ZArith List Lia Bool.
From RtcmModel Require Import Types BitIO.
From RtcmProofs Require Import ListZ BitProofs.
Import ListNotations.
Open Scope Z_scope.

(** Writing a [len]-bit field at any bit offset of any buffer, for any carrier of at least 8 bits with
    1 <= len <= bits: no panic; the cursor advances by len; the buffer keeps its length; and for every bit
    position g of the buffer (MSB first) the new bit is bit (offset+len-1-g) of the (sign-fixed) value inside
    the field -- most significant bit first -- and the old bit everywhere else. *)
Theorem C07_put_bits : forall k bits data offset value len value',
  8 <= bits -> 1 <= len <= bits -> 0 <= offset -> offset + len <= 8 * zlen data -> bytes_ok data = true ->
  sign_fix_rev k bits value len = Ok value' ->
  exists data', put k bits data offset value len = Ok (data', offset + len) /\
                zlen data' = zlen data /\ bytes_ok data' = true /\
                forall g, 0 <= g < 8 * zlen data ->
                  bitat data' g = if (offset <=? g) && (g <? offset + len) then Z.testbit value' (offset + len - 1 - g) else bitat data g.
Proof. exact put_bits. Qed.

(** a write that would extend past the end of the buffer reports a buffer overflow; the result carries
    neither a new buffer nor a new cursor *)
Theorem C07_put_overflow : forall k bits data offset value len,
  8 * zlen data < offset + len -> put k bits data offset value len = Err BufferOverflow.
Proof. exact put_overflow. Qed.

(** Reading a [len]-bit field: the carrier value v assembled by the loop holds, in its bit m (m < len),
    buffer bit offset+len-1-m, and zeros above; the result is its sign-fixed form, the cursor advances by len. *)
Theorem C07_parse_bits : forall k bits data offset len,
  8 <= bits -> 1 <= len <= bits -> 0 <= offset -> offset + len <= 8 * zlen data -> bytes_ok data = true ->
  exists v, canon k bits v /\
            (forall m, 0 <= m < bits -> Z.testbit v m = (m <? len) && bitat data (offset + len - 1 - m)) /\
            parse k bits data offset len = (r <- sign_fix k bits v len ;; Ok (r, offset + len)).
Proof. exact parse_bits. Qed.

(** reading the same position returns the written value, for every representable value: unsigned
    0 .. 2^len - 1, two's complement -2^(len-1) .. 2^(len-1) - 1, sign-magnitude -(2^(len-1)-1) .. 2^(len-1)-1 *)
Theorem C07_roundtrip : forall k bits data offset value len,
  8 <= bits -> 1 <= len <= bits -> 0 <= offset -> offset + len <= 8 * zlen data -> bytes_ok data = true ->
  representable k len value ->
  exists data', put k bits data offset value len = Ok (data', offset + len) /\
                parse k bits data' offset len = Ok (value, offset + len).
Proof. exact put_parse_roundtrip. Qed.
Check C07_roundtrip : forall k bits data offset value len,
  8 <= bits -> 1 <= len <= bits -> 0 <= offset -> offset + len <= 8 * zlen data -> bytes_ok data = true ->
  match k with
  | KU => 0 <= value < 2 ^ len
  | KI => - 2 ^ (len - 1) <= value < 2 ^ (len - 1)
  | KSM => - (2 ^ (len - 1) - 1) <= value <= 2 ^ (len - 1) - 1
  end ->
  exists data', put k bits data offset value len = Ok (data', offset + len) /\
                parse k bits data' offset len = Ok (value, offset + len).

Theorem C07_parse_overflow : forall k bits data offset len,
  8 * zlen data < offset + len -> parse k bits data offset len = Err BufferOverflow.
Proof. exact parse_overflow. Qed.

(** neither direction can panic, whatever the buffer content, offset or (carrier) value *)
Theorem C07_no_panic : forall k bits data offset value len,
  8 <= bits -> 1 <= len <= bits -> 0 <= offset -> bytes_ok data = true ->
  put k bits data offset value len <> Panic /\ parse k bits data offset len <> Panic.
Proof. intros. split; [apply put_no_panic|apply parse_no_panic]; assumption. Qed.

Example C07_example : put KI 16 [255; 0; 255] 5 (-3) 6 = Ok ([255; 160; 255], 11) /\ parse KI 16 [255; 160; 255] 5 6 = Ok (-3, 11).
Proof. split; vm_compute; reflexivity. Qed.
Example C07_example_sm : put KSM 8 [0; 0] 3 (-5) 8 = Ok ([16; 160], 11) /\ parse KSM 8 [16; 160] 3 8 = Ok (-5, 11) /\ representable KSM 8 (-5).
Proof. repeat split; vm_compute; try reflexivity; discriminate. Qed.

Print Assumptions C07_put_bits.
Print Assumptions C07_put_overflow.
Print Assumptions C07_parse_bits.
Print Assumptions C07_roundtrip.
Print Assumptions C07_no_panic.

(** The insertion sort used by the MSM row encoders and the 1230 encoder: a sorted permutation, and the same
    result for every order of the input when the keys are distinct. *)
From Coq Require Import List Sorting.Permutation Sorting.Sorted Lia.
From RtcmModel Require Import Bias.
Import ListNotations.

Section SortP.
  Context {A : Type}.
  Variable cmp : A -> A -> comparison.
  Definition le (a b : A) : Prop := cmp a b <> Gt.
  Hypothesis le_trans : forall a b c, le a b -> le b c -> le a c.
  Hypothesis le_total : forall a b, cmp a b <> Lt -> le b a.

  Lemma lt_le a b : cmp a b = Lt -> le a b.
  Proof. intros H. unfold le. rewrite H. discriminate. Qed.

  Lemma insert_perm x : forall l, Permutation (insert_sorted cmp x l) (x :: l).
  Proof.
    induction l as [|y r IH]; cbn [insert_sorted]; [apply Permutation_refl|].
    destruct (cmp x y); try apply Permutation_refl; (eapply Permutation_trans; [apply perm_skip; exact IH|apply perm_swap]).
  Qed.

  Lemma insert_sorted_ok x : forall l, StronglySorted le l -> StronglySorted le (insert_sorted cmp x l).
  Proof.
    induction l as [|y r IH]; intros Hs; cbn [insert_sorted]; [constructor; [constructor|constructor]|].
    inversion Hs as [|? ? Hr Hy]; subst.
    destruct (cmp x y) eqn:E.
    - constructor; [apply IH; exact Hr|]. apply Forall_forall. intros z Hz.
      apply (Permutation_in _ (insert_perm x r)) in Hz. destruct Hz as [<-|Hz]; [apply le_total; rewrite E; discriminate|rewrite Forall_forall in Hy; apply Hy; exact Hz].
    - constructor; [exact Hs|]. constructor; [apply lt_le; exact E|]. rewrite Forall_forall in *. intros z Hz. apply (le_trans x y z); [apply lt_le; exact E|apply Hy; exact Hz].
    - constructor; [apply IH; exact Hr|]. apply Forall_forall. intros z Hz.
      apply (Permutation_in _ (insert_perm x r)) in Hz. destruct Hz as [<-|Hz]; [apply le_total; rewrite E; discriminate|rewrite Forall_forall in Hy; apply Hy; exact Hz].
  Qed.

  Lemma fold_insert : forall l acc, StronglySorted le acc ->
    StronglySorted le (fold_left (fun acc x => insert_sorted cmp x acc) l acc) /\
    Permutation (fold_left (fun acc x => insert_sorted cmp x acc) l acc) (l ++ acc).
  Proof.
    induction l as [|x r IH]; intros acc Hs; cbn [fold_left app]; [split; [exact Hs|apply Permutation_refl]|].
    destruct (IH (insert_sorted cmp x acc) (insert_sorted_ok x acc Hs)) as [S P]. split; [exact S|].
    eapply Permutation_trans; [exact P|]. eapply Permutation_trans; [apply Permutation_app_head; apply insert_perm|]. apply Permutation_sym. apply Permutation_middle.
  Qed.

  Theorem sort_by_sorted l : StronglySorted le (sort_by cmp l).
  Proof. unfold sort_by. apply (fold_insert l []). constructor. Qed.
  Theorem sort_by_perm l : Permutation (sort_by cmp l) l.
  Proof. unfold sort_by. destruct (fold_insert l [] (SSorted_nil _)) as [_ P]. rewrite app_nil_r in P. exact P. Qed.

  (** two sorted lists with the same elements are equal when [le] is antisymmetric on those elements *)
  Lemma sorted_unique : forall l1 l2, StronglySorted le l1 -> StronglySorted le l2 -> Permutation l1 l2 ->
    (forall a b, In a l1 -> In b l1 -> le a b -> le b a -> a = b) -> l1 = l2.
  Proof.
    induction l1 as [|x r IH]; intros l2 S1 S2 P Has.
    - apply Permutation_nil in P. subst. reflexivity.
    - destruct l2 as [|y s]; [apply Permutation_sym, Permutation_nil in P; discriminate|].
      inversion S1 as [|? ? Sr Hx]; subst. inversion S2 as [|? ? Ss Hy]; subst.
      assert (Hxy : x = y).
      { assert (Ix : In x (y :: s)) by (apply (Permutation_in _ P); left; reflexivity).
        assert (Iy : In y (x :: r)) by (apply (Permutation_in _ (Permutation_sym P)); left; reflexivity).
        destruct Ix as [->|Ix]; [reflexivity|]. destruct Iy as [->|Iy]; [reflexivity|].
        rewrite Forall_forall in Hx, Hy. apply Has; [left; reflexivity|right; exact Iy|apply Hx; exact Iy|apply Hy; exact Ix]. }
      subst y. f_equal. apply IH; [exact Sr|exact Ss|apply Permutation_cons_inv with x; exact P|].
      intros a b Ia Ib. apply Has; right; assumption.
  Qed.

  (** order independence: every arrangement of the same rows sorts to the same list *)
  Theorem sort_by_order_independent l1 l2 : Permutation l1 l2 ->
    (forall a b, In a l1 -> In b l1 -> le a b -> le b a -> a = b) -> sort_by cmp l1 = sort_by cmp l2.
  Proof.
    intros P Has. apply sorted_unique; [apply sort_by_sorted|apply sort_by_sorted| |].
    - eapply Permutation_trans; [apply sort_by_perm|]. eapply Permutation_trans; [exact P|]. apply Permutation_sym. apply sort_by_perm.
    - intros a b Ia Ib. apply Has; apply (Permutation_in _ (sort_by_perm l1)); assumption.
  Qed.
End SortP.

(** the sort only looks at comparisons between elements of its input *)
Lemma insert_congr {A} (c1 c2 : A -> A -> comparison) x : forall l, (forall y, In y l -> c1 x y = c2 x y) -> insert_sorted c1 x l = insert_sorted c2 x l.
Proof.
  induction l as [|y r IH]; intros H; cbn [insert_sorted]; [reflexivity|].
  rewrite (H y (or_introl eq_refl)). destruct (c2 x y); try reflexivity; f_equal; apply IH; intros z Hz; apply H; right; exact Hz.
Qed.

Lemma sort_by_congr {A} (c1 c2 : A -> A -> comparison) l : (forall a b, In a l -> In b l -> c1 a b = c2 a b) -> sort_by c1 l = sort_by c2 l.
Proof.
  unfold sort_by. intros H.
  assert (G : forall r acc, (forall a, In a r -> In a l) -> (forall a, In a acc -> In a l) ->
             fold_left (fun acc x => insert_sorted c1 x acc) r acc = fold_left (fun acc x => insert_sorted c2 x acc) r acc).
  { induction r as [|x r IH]; intros acc Hr Ha; cbn [fold_left]; [reflexivity|].
    rewrite (insert_congr c1 c2 x acc) by (intros y Hy; apply H; [apply Hr; left; reflexivity|apply Ha; exact Hy]).
    apply IH; [intros a Ia; apply Hr; right; exact Ia|].
    intros a Ia. apply (Permutation_in _ (insert_perm c2 x acc)) in Ia. destruct Ia as [<-|Ia]; [apply Hr; left; reflexivity|apply Ha; exact Ia]. }
  apply G; [intros a Ia; exact Ia|intros a []].
Qed.

(** sorting by an integer key, and by a pair of integers in lexicographic order *)
From Coq Require Import ZArith.
Open Scope Z_scope.

Definition lexcmp (a b : Z * Z) : comparison :=
  match fst a ?= fst b with Lt => Lt | Eq => snd a ?= snd b | Gt => Gt end.
Definition lexle (a b : Z * Z) : Prop := fst a < fst b \/ (fst a = fst b /\ snd a <= snd b).

Lemma lexcmp_le a b : lexcmp a b <> Gt <-> lexle a b.
Proof.
  unfold lexcmp, lexle. destruct (Z.compare_spec (fst a) (fst b)) as [E|E|E]; destruct (Z.compare_spec (snd a) (snd b)) as [F|F|F];
    (split; intro H; [ first [ lia | exfalso; apply H; reflexivity ] | first [ intro X; discriminate X | intro X; lia ] ]).
Qed.

Section KeySort.
  Context {A : Type}.
  Variable key : A -> Z * Z.
  Definition kcmp (a b : A) : comparison := lexcmp (key a) (key b).

  Lemma kle_trans a b c : le kcmp a b -> le kcmp b c -> le kcmp a c.
  Proof. unfold le, kcmp. rewrite !lexcmp_le. unfold lexle. lia. Qed.
  Lemma kle_total a b : kcmp a b <> Lt -> le kcmp b a.
  Proof.
    unfold le, kcmp. rewrite lexcmp_le. unfold lexcmp, lexle.
    destruct (Z.compare_spec (fst (key a)) (fst (key b))) as [E|E|E]; destruct (Z.compare_spec (snd (key a)) (snd (key b))) as [F|F|F];
      intros H; try lia; exfalso; apply H; reflexivity.
  Qed.

  Lemma NoDup_map_inj_in (l : list A) a b : NoDup (map key l) -> In a l -> In b l -> key a = key b -> a = b.
  Proof.
    induction l as [|x r IH]; intros Hn Ia Ib E; [destruct Ia|]. cbn [map] in Hn. inversion Hn as [|? ? Hx Hr]; subst.
    destruct Ia as [<-|Ia]; destruct Ib as [<-|Ib]; try reflexivity.
    - exfalso. apply Hx. rewrite E. apply in_map. exact Ib.
    - exfalso. apply Hx. rewrite <- E. apply in_map. exact Ia.
    - apply IH; assumption.
  Qed.

  (** rows with pairwise distinct keys: sorted ascending by key, a permutation, and independent of the input order *)
  Theorem key_sort l : NoDup (map key l) ->
    Permutation (sort_by kcmp l) l /\ StronglySorted (fun a b => lexle (key a) (key b)) (sort_by kcmp l) /\
    forall l', Permutation l l' -> sort_by kcmp l' = sort_by kcmp l.
  Proof.
    intros Hn. split; [apply (sort_by_perm kcmp kle_trans kle_total)|]. split.
    - pose proof (sort_by_sorted kcmp kle_trans kle_total l) as S.
      induction S as [|x r Sr IH Hx]; constructor; [exact IH|].
      rewrite Forall_forall in *. intros y Hy. specialize (Hx y Hy). unfold le, kcmp in Hx. apply lexcmp_le. exact Hx.
    - intros l' P. symmetry. apply (sort_by_order_independent kcmp kle_trans kle_total l l' P).
      intros a b Ia Ib H1 H2. apply (NoDup_map_inj_in l a b Hn Ia Ib).
      unfold le, kcmp in H1, H2. rewrite lexcmp_le in H1, H2. unfold lexle in H1, H2.
      destruct (key a) as [a1 a2], (key b) as [b1 b2]. cbn [fst snd] in *. f_equal; lia.
  Qed.
End KeySort.

(** the sort is a permutation whatever the comparison *)
Lemma fold_insert_perm {A} (cmp : A -> A -> comparison) : forall l acc,
  Permutation (fold_left (fun acc x => insert_sorted cmp x acc) l acc) (l ++ acc).
Proof.
  induction l as [|x r IH]; intros acc; cbn [fold_left app]; [apply Permutation_refl|].
  eapply Permutation_trans; [apply IH|]. eapply Permutation_trans; [apply Permutation_app_head; apply insert_perm|]. apply Permutation_sym. apply Permutation_middle.
Qed.
Lemma sort_by_perm_any {A} (cmp : A -> A -> comparison) l : Permutation (sort_by cmp l) l.
Proof. unfold sort_by. pose proof (fold_insert_perm cmp l []) as P. rewrite app_nil_r in P. exact P. Qed.

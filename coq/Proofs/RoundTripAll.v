(** What build_message wrote, get_message reads back -- for the layouts that are plain header fields followed by
    one special fragment (MSM data segment, SSR code-bias list, 1230 list, 1029 text): the frame is accepted,
    carries the message's number, and decodes to a typed message of that number whose header has the same
    shape and whose special part is related to the encoded one by that fragment's round-trip relation. *)
From Coq Require Import ZArith List Lia Bool.
From RtcmModel Require Import Types BitIO Floats Field SigId Text Bias Msm Layout Crc Frame Message.
From RtcmProofs Require Import BitLemmas ListZ FragInd EncodeLen BitProofs DecodeBound DecodeTotal FieldProofs TextProofs
  FrameProofs ScanProofs BuilderProofs SizeProofs BuildProofs RoundTrip RoundTripFrame EncodeTotal EncodeTotalAll EncodeFrameAll Ext2Special.
Import ListNotations.
Open Scope Z_scope.

Section TailRT.
  Variable sigt : gnss -> sigtable.
  Variable ssr59 ssr65 : sigtable.
  Variable cap59 cap65 : Z.
  Notation dec := (decode_frag sigt ssr59 ssr65 cap59 cap65).
  Notation enc := (encode_frag sigt ssr59 ssr65 cap59 cap65).
  Notation go_dec := (fun data => fix go (fl : list frag) (off : Z) {struct fl} : outcome (list val * Z) :=
         match fl with
         | [] => Ok ([], off)
         | f' :: fl' => '(x, off1) <- dec f' data off ;; '(r, off2) <- go fl' off1 ;; Ok (x :: r, off2)
         end).
  Notation go_enc := (fix go (fl : list frag) (vs : list val) (st : astate) {struct fl} : outcome astate :=
         match fl, vs with
         | [], [] => Ok st
         | f' :: fl', v' :: vs' => st' <- enc f' st v' ;; go fl' vs' st'
         | _, _ => Panic
         end).

  (** the special fragment [sp]: what it accepts it decodes (relation [R], under the side condition [Q]), its
      decoder depends only on the bits it consumes and never moves backwards *)
  Variable sp : frag.
  Variable Q : val -> Prop.
  Variable R : val -> val -> Prop.
  Hypothesis Hframed : framed (enc sp).
  Hypothesis Hacc : forall d o v d' o', bytes_ok d = true -> 0 <= o -> enc sp (d, o) v = Ok (d', o') -> Q v ->
    exists v', dec sp d' o = Ok (v', o') /\ R v v'.
  Hypothesis Hext2 : ext2 (dec sp).
  Hypothesis Hmono : forall d off v off', bytes_ok d = true -> 0 <= off -> dec sp d off = Ok (v, off') -> off <= off'.

  Variable hd : list frag.
  Hypothesis Hp : forallb plain hd = true.
  Hypothesis Hc : forallb counts_ok hd = true.

  Lemma go_dec_app data : forall fl off, go_dec data (fl ++ [sp]) off =
    ('(vs, o1) <- go_dec data fl off ;; '(x, o2) <- dec sp data o1 ;; Ok (vs ++ [x], o2)).
  Proof.
    induction fl as [|f fl IH]; intros off; cbn [app].
    - cbn [bind]. destruct (dec sp data off) as [[x o2]|e|]; reflexivity.
    - destruct (dec f data off) as [[y o1]|e|]; cbn [bind]; try reflexivity. rewrite IH.
      destruct (go_dec data fl o1) as [[vs o2]|e|]; cbn [bind]; try reflexivity.
      destruct (dec sp data o2) as [[x o3]|e|]; reflexivity.
  Qed.

  Lemma go_enc_app : forall fl vs st st', go_enc (fl ++ [sp]) vs st = Ok st' ->
    exists vs1 x st1, vs = vs1 ++ [x] /\ go_enc fl vs1 st = Ok st1 /\ enc sp st1 x = Ok st'.
  Proof.
    induction fl as [|f fl IH]; intros vs st st' H; cbn [app] in H.
    - destruct vs as [|x [|y r]]; try discriminate.
      + destruct (enc sp st x) as [st1|e|] eqn:E; cbn [bind] in H; try discriminate. inversion H; subst. exists [], x, st. repeat split; assumption.
      + destruct (enc sp st x) as [st1|e|] eqn:E; cbn [bind] in H; discriminate.
    - destruct vs as [|y vs]; [discriminate|].
      destruct (enc f st y) as [st1|e|] eqn:E; cbn [bind] in H; try discriminate.
      destruct (IH vs st1 st' H) as [vs1 [x [st2 [-> [G S]]]]]. exists (y :: vs1), x, st2. split; [reflexivity|]. split; [|exact S].
      cbn. rewrite E. cbn [bind]. exact G.
  Qed.

  (** body level: what the encoder accepts, the decoder reads back from the encoder's own buffer *)
  Theorem tail_accepted d o vs d' o' : bytes_ok d = true -> 0 <= o -> enc (FStruct (hd ++ [sp])) (d, o) (VStruct vs) = Ok (d', o') ->
    exists vs1 x vs1', vs = vs1 ++ [x] /\
      (Q x -> exists x', dec (FStruct (hd ++ [sp])) d' o = Ok (VStruct (vs1' ++ [x']), o') /\ Forall2 shape vs1 vs1' /\ R x x') /\
      o <= o' /\ bytes_ok d' = true /\ zlen d' = zlen d /\ agree d d' 0 o.
  Proof.
    intros Hb Ho H. cbn [encode_frag] in H.
    destruct (go_enc_app hd vs (d, o) (d', o') H) as [vs1 [x [[dm om] [-> [G S]]]]].
    destruct (list_acc sigt ssr59 ssr65 cap59 cap65 hd ltac:(apply Forall_forall; intros f _; apply accepted_decodes) Hp Hc vs1 d o dm om Hb Ho G) as [M1 [B1 [L1 [A1 [vs1' [D1 S1]]]]]].
    destruct (Hframed dm om x d' o' B1 ltac:(lia) S) as [M2 [B2 [L2 A2]]].
    pose proof (list_ext' sigt ssr59 ssr65 cap59 cap65 hd Hp dm d' o vs1' om B1 B2 Ho D1 ltac:(apply (agree_sub _ _ 0 om); [exact A2|lia|lia])) as D1'.
    exists vs1, x, vs1'.
    assert (Hx : Q x -> exists x', dec sp d' om = Ok (x', o') /\ R x x') by (intros HQ; exact (Hacc dm om x d' o' B1 ltac:(lia) S HQ)).
    assert (Hrest : o <= o' /\ bytes_ok d' = true /\ zlen d' = zlen d /\ agree d d' 0 o).
    { split; [lia|]. split; [exact B2|]. split; [lia|]. eapply agree_trans; [exact A1|]. apply (agree_sub _ _ 0 om); [exact A2|lia|lia]. }
    split; [reflexivity|]. split; [|exact Hrest].
    intros HQ. destruct (Hx HQ) as [x' [Dx Rx]]. exists x'. split; [|split; [exact S1|exact Rx]].
    cbn [decode_frag]. rewrite go_dec_app, D1'. cbn [bind]. rewrite Dx. reflexivity.
  Qed.

  (** decoding the layout depends only on the bits consumed *)
  Theorem tail_ext2 : ext2 (dec (FStruct (hd ++ [sp]))).
  Proof.
    intros d1 d2 off v off' B1 B2 Ho H Hfit Ha. cbn [decode_frag] in H |- *. rewrite go_dec_app in H. rewrite go_dec_app.
    destruct (go_dec d1 hd off) as [[vs o1]|e|] eqn:E1; cbn [bind] in H; try discriminate.
    destruct (dec sp d1 o1) as [[x o2]|e|] eqn:E2; cbn [bind] in H; try discriminate. inversion H; subst v off'. clear H.
    pose proof (list_mono sigt ssr59 ssr65 cap59 cap65 hd Hp d1 off B1 Ho vs o1 E1) as M1.
    pose proof (Hmono d1 o1 x o2 B1 ltac:(lia) E2) as M2.
    rewrite (list_ext2 sigt ssr59 ssr65 cap59 cap65 hd ltac:(apply Forall_forall; intros f _; apply decode_frag_ext2) Hp d1 d2 off vs o1 B1 B2 Ho E1 ltac:(lia) ltac:(apply (bits_agree_sub _ _ _ _ off o1 Ha); lia)). cbn [bind].
    rewrite (Hext2 d1 d2 o1 x o2 B1 B2 ltac:(lia) E2 Hfit ltac:(apply (bits_agree_sub _ _ _ _ o1 o2 Ha); lia)). reflexivity.
  Qed.
End TailRT.

(** ---------- the frame around an arbitrary layout ---------- *)
Section BuildGen.
  Variable sigt : gnss -> sigtable.
  Variable ssr59 ssr65 : sigtable.
  Variable cap59 cap65 : Z.
  Variable table : list (Z * frag).
  Hypothesis Hc59 : 0 <= cap59.
  Hypothesis Hc65 : 0 <= cap65.
  Hypothesis Hfit : forallb (fun m => frag_wfb (snd m) && (12 + max_bits cap59 cap65 (snd m) <=? 8184)) table = true.
  Hypothesis Hnum : forallb (fun m => (0 <=? fst m) && (fst m <? 4096)) table = true.

  Notation build_on := (build_on sigt ssr59 ssr65 cap59 cap65 table).
  Notation from_frame := (from_frame sigt ssr59 ssr65 cap59 cap65 table).
  Notation dec := (decode_frag sigt ssr59 ssr65 cap59 cap65).
  Notation enc := (encode_frag sigt ssr59 ssr65 cap59 cap65).

  Variable lay : frag.
  Variable QB : val -> Prop.
  Variable RB : val -> val -> Prop.
  Hypothesis HaccB : forall d v d' o', bytes_ok d = true -> enc lay (d, 12) v = Ok (d', o') ->
    12 <= o' /\ bytes_ok d' = true /\ zlen d' = zlen d /\ agree d d' 0 12 /\ (QB v -> exists v', dec lay d' 12 = Ok (v', o') /\ RB v v').
  Hypothesis Hext2B : ext2 (dec lay).

  (** a frame built from a message of this layout is accepted by MessageFrame::new, carries the number and
      decodes to a typed message of the same number (never Corrupt, Empty or MsgNotSupported) related to the
      encoded one by [RB] *)
  Theorem build_decodes_gen n v fr d' : lookup n table = Some lay ->
    build_on fresh_data (MTyped n v) = Ok (fr, d') -> QB v ->
    exists f v', frame_new fr = Ok f /\ fr_number f = Some n /\ from_frame f = Ok (MTyped n v') /\ RB v v' /\
      exists o', dec lay (fr_data f) 12 = Ok (v', o') /\ 12 <= o' <= 8 * zlen (fr_data f).
  Proof.
    intros Hlk Hbuild HQ.
    destruct (build_well_formed sigt ssr59 ssr65 cap59 cap65 table Hc59 Hc65 Hfit (MTyped n v) fr d' Hbuild)
      as [n0 [v0 [lay0 [Em [Hlk0 [Hlen [Hpre [Hres [Hfl Hacc]]]]]]]]].
    inversion Em; subst n0 v0. rewrite Hlk in Hlk0. inversion Hlk0; subst lay0.
    pose proof (lookup_In table n lay Hlk) as Hin.
    pose proof Hnum as Hn'. rewrite forallb_forall in Hn'. specialize (Hn' _ Hin). cbn [fst] in Hn'. apply andb_true_iff in Hn'. destruct Hn' as [Hn0 Hn1]. apply Z.leb_le in Hn0. apply Z.ltb_lt in Hn1.
    pose proof Hfit as Hf'. rewrite forallb_forall in Hf'. specialize (Hf' _ Hin). cbn [snd] in Hf'. apply andb_true_iff in Hf'. destruct Hf' as [Hwf Hmax]. apply Z.leb_le in Hmax.
    (* take build_on apart *)
    unfold Message.build_on in Hbuild. rewrite Hlk in Hbuild.
    set (window := firstn 1023 (skipn 3 fresh_data)) in *.
    assert (Hwl : zlen window = 1023) by (vm_compute; reflexivity).
    assert (Hwb : bytes_ok window = true) by (vm_compute; reflexivity).
    destruct (put KU 16 window 0 n 12) as [[d0 o0]|e|] eqn:Pu; cbn [bind] in Hbuild; try discriminate.
    destruct (enc lay (d0, o0) v) as [[d1 o1]|e|] eqn:En; cbn [bind] in Hbuild; try discriminate.
    cbn [fst snd] in Hbuild. destruct (usub o1 1) as [om1|e|] eqn:Eu; cbn [bind fst snd] in Hbuild; try discriminate.
    unfold usub in Eu. destruct (Z.leb_spec 1 o1) as [Ho1|]; [|discriminate]. inversion Eu; subst om1. clear Eu.
    (* the number *)
    assert (Hr : representable KU 12 n) by (cbn [representable]; change (2 ^ 12) with 4096; lia).
    destruct (put_bits KU 16 window 0 n 12 n ltac:(lia) ltac:(lia) ltac:(lia) ltac:(lia) Hwb eq_refl) as [d0' [Pu' [L0 [B0 Bits0]]]].
    rewrite Pu in Pu'. inversion Pu'; subst d0' o0. clear Pu'.
    (* the body *)
    destruct (HaccB d0 v d1 o1 B0 En) as [M1 [B1 [L1 [A1 Hdec]]]]. destruct (Hdec HQ) as [v' [D1 Sh1]].
    pose proof (encode_frag_grows sigt ssr59 ssr65 cap59 cap65 Hc59 Hc65 lay Hwf (d0, 12) v (d1, o1) En) as Hg. cbn [snd] in Hg.
    set (dl := (o1 - 1) / 8 + 1) in *.
    assert (Hdl : 2 <= dl <= 1023) by (unfold dl; lia).
    assert (Ho1dl : o1 <= 8 * dl) by (unfold dl; lia).
    cbv zeta in Hbuild. match type of Hbuild with (if ?c then _ else _) = _ => destruct c eqn:Hshort end; [discriminate|]. injection Hbuild as Hfr Hd'. clear Hd'.
    set (data1 := firstn 3 fresh_data ++ d1 ++ skipn 1026 fresh_data) in *.
    set (data2 := set_nth data1 1 (Z.shiftr dl 8 mod 256)) in *.
    set (data3 := set_nth data2 2 (Z.land dl 255)) in *.
    set (crc := crc24q (zfirstn (dl + 3) data3)) in *.
    set (data4 := set_nth data3 (dl + 3) (Z.land (Z.shiftr crc 16) 255)) in *.
    set (data5 := set_nth data4 (dl + 4) (Z.land (Z.shiftr crc 8) 255)) in *.
    set (data6 := set_nth data5 (dl + 5) (Z.land crc 255)) in *.
    assert (Hl6 : zlen data6 = 1029).
    { unfold data6, data5, data4, data3, data2. rewrite !zlen_set_nth. unfold data1. rewrite !zlen_app.
      replace (zlen (firstn 3 fresh_data)) with 3 by (vm_compute; reflexivity).
      replace (zlen (skipn 1026 fresh_data)) with 3 by (vm_compute; reflexivity). lia. }
    assert (Hfr' : zfirstn (dl + 6) data6 = fr) by exact Hfr. clear Hfr. rename Hfr' into Hfr.
    assert (Hzfr : zlen fr = dl + 6) by (rewrite <- Hfr; apply zlen_zfirstn; lia).
    (* the frame *)
    pose proof (frame_accept_ok fr Hacc) as Hnew.
    assert (Hbfr : bytes_ok fr = true).
    { rewrite <- Hfr. apply bytes_ok_zfirstn. unfold data6, data5, data4, data3, data2.
      assert (Hb1 : bytes_ok data1 = true).
      { unfold data1. rewrite !bytes_ok_app, B1. replace (bytes_ok (firstn 3 fresh_data)) with true by (vm_compute; reflexivity).
        replace (bytes_ok (skipn 1026 fresh_data)) with true by (vm_compute; reflexivity). reflexivity. }
      repeat apply bytes_ok_set_nth; try exact Hb1.
      - rewrite Z.shiftr_div_pow2 by lia. apply Z.mod_pos_bound. lia.
      - change 255 with (2 ^ 8 - 1). rewrite land_low_mod by lia. apply Z.mod_pos_bound. lia.
      - change 255 with (2 ^ 8 - 1). rewrite land_low_mod by lia. apply Z.mod_pos_bound. lia.
      - change 255 with (2 ^ 8 - 1). rewrite land_low_mod by lia. apply Z.mod_pos_bound. lia.
      - change 255 with (2 ^ 8 - 1). rewrite land_low_mod by lia. apply Z.mod_pos_bound. lia. }
    destruct (frame_attributes fr (frame_of fr) Hbfr Hnew) as [_ [_ [_ [_ [Hdata [_ Hnumb]]]]]].
    rewrite Hfl, Hzfr in Hdata. replace (dl + 6 - 6) with dl in Hdata by lia.
    (* payload bytes of the frame are the first dl bytes of the encoder's buffer *)
    assert (Hd1l : zlen d1 = 1023) by lia.
    assert (Hbyte : forall j, 0 <= j < dl -> znth (fr_data (frame_of fr)) j = znth d1 j).
    { intros j Hj. rewrite Hdata, znth_zfirstn by lia. rewrite znth_zskipn by lia.
      rewrite <- Hfr. rewrite znth_zfirstn by lia. unfold data6, data5, data4, data3, data2.
      rewrite !znth_set_nth_other by lia. unfold data1.
      rewrite znth_app_r by (replace (zlen (firstn 3 fresh_data)) with 3 by (vm_compute; reflexivity); lia).
      replace (zlen (firstn 3 fresh_data)) with 3 by (vm_compute; reflexivity).
      rewrite znth_app_l by lia. f_equal. lia. }
    assert (Hfdl : zlen (fr_data (frame_of fr)) = dl).
    { rewrite Hdata. apply zlen_zfirstn. split; [lia|]. rewrite zlen_zskipn by lia. lia. }
    assert (Hfdb : bytes_ok (fr_data (frame_of fr)) = true).
    { rewrite Hdata. apply bytes_ok_zfirstn. apply bytes_ok_zskipn. exact Hbfr. }
    assert (Hagree : bits_agree d1 (fr_data (frame_of fr)) 0 (8 * dl)).
    { intros g Hgg. apply bitat_znth. symmetry. apply Hbyte. lia. }
    (* the message number *)
    assert (Hnumber : fr_number (frame_of fr) = Some n).
    { rewrite Hnumb. unfold number_of. rewrite Hfl, Hzfr. destruct (Z.leb_spec 2 (dl + 6 - 6)) as [_|]; [|lia]. f_equal.
      assert (E3 : znth fr 3 = znth d1 0).
      { rewrite <- (Hbyte 0 ltac:(lia)), Hdata, znth_zfirstn by lia. rewrite znth_zskipn by lia. reflexivity. }
      assert (E4 : znth fr 4 = znth d1 1).
      { rewrite <- (Hbyte 1 ltac:(lia)), Hdata, znth_zfirstn by lia. rewrite znth_zskipn by lia. reflexivity. }
      rewrite E3, E4. apply number_bits; [exact B1|lia|].
      intros m Hm. destruct A1 as [_ A1]. rewrite <- (A1 (11 - m)) by lia. rewrite Bits0 by lia.
      destruct (Z.leb_spec 0 (11 - m)); [|lia]. destruct (Z.ltb_spec (11 - m) (0 + 12)); [|lia]. cbn [andb]. f_equal. lia. }
    exists (frame_of fr), v'. split; [exact Hnew|]. split; [exact Hnumber|].
    (* decode from the frame's payload *)
    pose proof (Hext2B d1 (fr_data (frame_of fr)) 12 v' o1 B1 Hfdb ltac:(lia) D1 ltac:(lia)
                  ltac:(apply (bits_agree_sub _ _ 0 (8 * dl)); [exact Hagree|lia|lia])) as D2.
    split; [unfold Message.from_frame; rewrite Hnumber, Hlk, D2; reflexivity|]. split; [exact Sh1|].
    exists o1. split; [exact D2|lia].
  Qed.
End BuildGen.

(** ---------- both together ---------- *)
Section TailBuild.
  Variable sigt : gnss -> sigtable.
  Variable ssr59 ssr65 : sigtable.
  Variable cap59 cap65 : Z.
  Variable table : list (Z * frag).
  Hypothesis Hc59 : 0 <= cap59.
  Hypothesis Hc65 : 0 <= cap65.
  Hypothesis Hfit : forallb (fun m => frag_wfb (snd m) && (12 + max_bits cap59 cap65 (snd m) <=? 8184)) table = true.
  Hypothesis Hnum : forallb (fun m => (0 <=? fst m) && (fst m <? 4096)) table = true.
  Notation build_on := (build_on sigt ssr59 ssr65 cap59 cap65 table).
  Notation from_frame := (from_frame sigt ssr59 ssr65 cap59 cap65 table).
  Notation dec := (decode_frag sigt ssr59 ssr65 cap59 cap65).
  Notation enc := (encode_frag sigt ssr59 ssr65 cap59 cap65).

  Variable sp : frag.
  Variable Q : val -> Prop.
  Variable R : val -> val -> Prop.
  Hypothesis Hframed : framed (enc sp).
  Hypothesis Hacc : forall d o v d' o', bytes_ok d = true -> 0 <= o -> enc sp (d, o) v = Ok (d', o') -> Q v ->
    exists v', dec sp d' o = Ok (v', o') /\ R v v'.
  Hypothesis Hext2 : ext2 (dec sp).
  Hypothesis Hmono : forall d off v off', bytes_ok d = true -> 0 <= off -> dec sp d off = Ok (v, off') -> off <= off'.

  (** the frame build_message returns for a message whose layout is [hd ++ [sp]] is accepted, carries the
      number, and get_message returns the typed message: header of the same shape, special part related by R *)
  Theorem tail_build_decodes n lay hd vs1 x fr d' : lookup n table = Some lay -> tail_form lay = Some (hd, sp) ->
    forallb plain hd = true -> forallb counts_ok hd = true ->
    build_on fresh_data (MTyped n (VStruct (vs1 ++ [x]))) = Ok (fr, d') -> Q x ->
    exists f vs1' x', frame_new fr = Ok f /\ fr_number f = Some n /\ from_frame f = Ok (MTyped n (VStruct (vs1' ++ [x']))) /\
      Forall2 shape vs1 vs1' /\ R x x'.
  Proof.
    intros Hlk Ht Hp Hc Hbuild HQ. pose proof (tail_form_eq lay hd sp Ht) as El.
    set (QB := fun v : val => exists a b, v = VStruct (a ++ [b]) /\ Q b).
    set (RB := fun v v' : val => exists a b a' b', v = VStruct (a ++ [b]) /\ v' = VStruct (a' ++ [b']) /\ Forall2 shape a a' /\ R b b').
    assert (HaccB : forall d o v d1 o1, bytes_ok d = true -> 0 <= o -> enc lay (d, o) v = Ok (d1, o1) ->
              o <= o1 /\ bytes_ok d1 = true /\ zlen d1 = zlen d /\ agree d d1 0 o /\ (QB v -> exists v', dec lay d1 o = Ok (v', o1) /\ RB v v')).
    { intros d o v d1 o1 Hb Ho E. rewrite El in E. destruct v as [| | | | | |l| |]; try (cbn [encode_frag] in E; discriminate).
      assert (T : exists a b a', l = a ++ [b] /\
                (Q b -> exists b', dec (FStruct (hd ++ [sp])) d1 o = Ok (VStruct (a' ++ [b']), o1) /\ Forall2 shape a a' /\ R b b') /\
                o <= o1 /\ bytes_ok d1 = true /\ zlen d1 = zlen d /\ agree d d1 0 o).
      { eapply tail_accepted; eassumption. }
      destruct T as [a [b [a' [-> [Hd [M [B [L A]]]]]]]].
      split; [exact M|]. split; [exact B|]. split; [exact L|]. split; [exact A|].
      intros [a2 [b2 [E2 HQ2]]]. inversion E2 as [E3]. apply app_inj_tail in E3. destruct E3 as [-> ->].
      destruct (Hd HQ2) as [b' [Dd [Sh Rr]]]. exists (VStruct (a' ++ [b'])). rewrite El. split; [exact Dd|].
      exists a2, b2, a', b'. repeat split; assumption. }
    assert (Hext2B : ext2 (dec lay)) by (rewrite El; eapply tail_ext2; eassumption).
    destruct (build_decodes_gen sigt ssr59 ssr65 cap59 cap65 table Hc59 Hc65 Hfit Hnum lay QB RB (fun d v d1 o1 Hb E => HaccB d 12 v d1 o1 Hb ltac:(lia) E) Hext2B n _ fr d' Hlk Hbuild
                ltac:(exists vs1, x; split; [reflexivity|exact HQ])) as [f [v' [Hn [Hnum' [Hfrom [[a [b [a' [b' [E1 [-> [Sh Rr]]]]]]] _]]]]]].
    inversion E1 as [E2]. apply app_inj_tail in E2. destruct E2 as [<- <-].
    exists f, a', b'. repeat split; assumption.
  Qed.
End TailBuild.

(** Arithmetic readings of the bit operations used by the model. *)
From Coq Require Import ZArith List Lia Bool.
Import ListNotations.
Open Scope Z_scope.

Lemma land_disjoint a b k : 0 <= k -> 0 <= b < 2 ^ k -> Z.land (a * 2 ^ k) b = 0.
Proof.
  intros Hk Hb. apply Z.bits_inj'. intros n Hn. rewrite Z.land_spec, Z.bits_0.
  destruct (Z_lt_ge_dec n k).
  - rewrite Z.mul_pow2_bits_low by lia. reflexivity.
  - destruct (Z.eq_dec b 0) as [->|Hb0]; [rewrite Z.bits_0; apply andb_false_r|].
    rewrite (Z.bits_above_log2 b n); [apply andb_false_r|lia|].
    apply Z.lt_le_trans with k; [|lia].
    apply Z.log2_lt_pow2; lia.
Qed.

Lemma lor_disjoint a b k : 0 <= k -> 0 <= b < 2 ^ k -> Z.lor (a * 2 ^ k) b = a * 2 ^ k + b.
Proof.
  intros Hk Hb. pose proof (land_disjoint a b k Hk Hb) as H.
  rewrite <- Z.lxor_lor by exact H. symmetry. apply Z.add_nocarry_lxor. exact H.
Qed.

Lemma land_low_mod a n : 0 <= n -> Z.land a (2 ^ n - 1) = a mod 2 ^ n.
Proof. intros Hn. replace (2 ^ n - 1) with (Z.ones n) by (rewrite Z.ones_equiv; lia). apply Z.land_ones. exact Hn. Qed.

Lemma lxor_range a b n : 0 <= n -> 0 <= a < 2 ^ n -> 0 <= b < 2 ^ n -> 0 <= Z.lxor a b < 2 ^ n.
Proof.
  intros Hn Ha Hb. assert (H0: 0 <= Z.lxor a b) by (apply Z.lxor_nonneg; split; lia).
  split; [exact H0|].
  destruct (Z.eq_dec (Z.lxor a b) 0) as [->|Hz]; [apply Z.pow_pos_nonneg; lia|].
  assert (Hn0 : 0 < n).
  { destruct (Z.eq_dec n 0) as [->|]; [|lia]. simpl in Ha, Hb. assert (a = 0) by lia. assert (b = 0) by lia. subst. simpl in Hz. congruence. }
  apply Z.log2_lt_pow2; [lia|].
  eapply Z.le_lt_trans; [apply Z.log2_lxor; lia|].
  apply Z.max_lub_lt.
  - destruct (Z.eq_dec a 0) as [->|]; [simpl; lia|]. apply Z.log2_lt_pow2; lia.
  - destruct (Z.eq_dec b 0) as [->|]; [simpl; lia|]. apply Z.log2_lt_pow2; lia.
Qed.

Lemma mod_lxor a b n : 0 <= n -> (Z.lxor a b) mod 2 ^ n = Z.lxor (a mod 2 ^ n) (b mod 2 ^ n).
Proof.
  intros. rewrite <- !Z.land_ones by lia. apply Z.bits_inj'. intros k Hk.
  rewrite !Z.land_spec, !Z.lxor_spec, !Z.land_spec.
  destruct (Z.testbit a k), (Z.testbit b k), (Z.testbit (Z.ones n) k); reflexivity.
Qed.

Lemma double_lxor a b : 2 * Z.lxor a b = Z.lxor (2 * a) (2 * b).
Proof. rewrite !(Z.mul_comm 2). change 2 with (2 ^ 1). rewrite <- !Z.shiftl_mul_pow2 by lia. apply Z.shiftl_lxor. Qed.

(** Signal identifier tables: lookups, bijection, total order (C18). Generic in the table. *)
From Coq Require Import ZArith List Lia Bool.
From RtcmModel Require Import Types SigId.
Import ListNotations.
Open Scope Z_scope.

Definition sig_eqb (a b : Z * Z) : bool := (fst a =? fst b) && (snd a =? snd b).
Lemma sig_eqb_spec a b : sig_eqb a b = true <-> a = b.
Proof.
  destruct a as [a1 a2], b as [b1 b2]. unfold sig_eqb. cbn. rewrite andb_true_iff, !Z.eqb_eq.
  split; [intros [-> ->]; reflexivity|intros H; inversion H; split; reflexivity].
Qed.

Fixpoint zmem (x : Z) (l : list Z) : bool := match l with [] => false | y :: r => (x =? y) || zmem x r end.
Fixpoint znodup (l : list Z) : bool := match l with [] => true | x :: r => negb (zmem x r) && znodup r end.
Fixpoint smem (x : Z * Z) (l : list (Z * Z)) : bool := match l with [] => false | y :: r => sig_eqb x y || smem x r end.
Fixpoint snodup (l : list (Z * Z)) : bool := match l with [] => true | x :: r => negb (smem x r) && snodup r end.

Lemma zmem_In x l : zmem x l = true <-> In x l.
Proof.
  induction l as [|y r IH]; cbn; [split; [discriminate|tauto]|].
  rewrite orb_true_iff, Z.eqb_eq, IH. split; intros [H|H]; auto.
Qed.
Lemma smem_In x l : smem x l = true <-> In x l.
Proof.
  induction l as [|y r IH]; cbn; [split; [discriminate|tauto]|].
  rewrite orb_true_iff, sig_eqb_spec, IH. split; intros [H|H]; auto.
Qed.

(** a table is well formed: ids pairwise distinct, descriptors pairwise distinct, every id within lo..hi *)
Definition table_ok (lo hi : Z) (t : sigtable) : bool :=
  znodup (map fst t) && snodup (map snd t) && forallb (fun r => (lo <=? fst r) && (fst r <=? hi)) t.

Lemma to_id_In t s i : to_id t s = Some i -> In (i, s) t.
Proof.
  induction t as [|[n [b a]] r IH]; cbn; [discriminate|].
  destruct ((fst s =? b) && (snd s =? a)) eqn:E.
  - intros H. inversion H; subst. left. apply andb_true_iff in E. destruct E as [E1 E2].
    apply Z.eqb_eq in E1, E2. destruct s; cbn in *; subst; reflexivity.
  - intros H. right. apply IH. exact H.
Qed.
Lemma to_sig_In t i s : to_sig t i = Some s -> In (i, s) t.
Proof.
  induction t as [|[n s'] r IH]; cbn; [discriminate|].
  destruct (Z.eqb_spec i n).
  - intros H. inversion H; subst. left. reflexivity.
  - intros H. right. apply IH. exact H.
Qed.

Lemma In_to_sig t i s : znodup (map fst t) = true -> In (i, s) t -> to_sig t i = Some s.
Proof.
  induction t as [|[n s'] r IH]; cbn; [tauto|]. intros Hnd [H|H].
  - inversion H; subst. rewrite Z.eqb_refl. reflexivity.
  - apply andb_true_iff in Hnd. destruct Hnd as [Hn Hr].
    destruct (Z.eqb_spec i n) as [->|Hne].
    + exfalso. apply negb_true_iff in Hn. assert (zmem n (map fst r) = true); [|congruence].
      apply zmem_In. apply (in_map fst) in H. exact H.
    + apply IH; assumption.
Qed.
Lemma In_to_id t i s : snodup (map snd t) = true -> In (i, s) t -> to_id t s = Some i.
Proof.
  induction t as [|[n [b a]] r IH]; cbn; [tauto|]. intros Hnd [H|H].
  - inversion H; subst. cbn. rewrite !Z.eqb_refl. reflexivity.
  - apply andb_true_iff in Hnd. destruct Hnd as [Hn Hr].
    destruct ((fst s =? b) && (snd s =? a)) eqn:E.
    + exfalso. apply negb_true_iff in Hn. assert (smem (b, a) (map snd r) = true); [|congruence].
      apply smem_In. apply andb_true_iff in E. destruct E as [E1 E2]. apply Z.eqb_eq in E1, E2.
      destruct s as [s1 s2]; cbn in *; subst. apply (in_map snd) in H. exact H.
    + apply IH; assumption.
Qed.

Section Table.
  Variable t : sigtable.
  Variables lo hi : Z.
  Hypothesis Hok : table_ok lo hi t = true.

  Lemma ok_ids : znodup (map fst t) = true.
  Proof. unfold table_ok in Hok. apply andb_true_iff in Hok. destruct Hok as [H _]. apply andb_true_iff in H. tauto. Qed.
  Lemma ok_sigs : snodup (map snd t) = true.
  Proof. unfold table_ok in Hok. apply andb_true_iff in Hok. destruct Hok as [H _]. apply andb_true_iff in H. tauto. Qed.

  (** the two lookups are inverse to each other: a bijection between the recognised descriptors and the used positions *)
  Lemma to_sig_to_id s i : to_id t s = Some i -> to_sig t i = Some s.
  Proof. intros H. apply In_to_sig; [apply ok_ids|apply to_id_In; exact H]. Qed.
  Lemma to_id_to_sig i s : to_sig t i = Some s -> to_id t s = Some i.
  Proof. intros H. apply In_to_id; [apply ok_sigs|apply to_sig_In; exact H]. Qed.

  Lemma to_id_range s i : to_id t s = Some i -> lo <= i <= hi.
  Proof.
    intros H. apply to_id_In in H. unfold table_ok in Hok. apply andb_true_iff in Hok. destruct Hok as [_ Hr].
    rewrite forallb_forall in Hr. specialize (Hr _ H). cbn in Hr. lia.
  Qed.

  Lemma to_id_inj a b i : to_id t a = Some i -> to_id t b = Some i -> a = b.
  Proof. intros Ha Hb. apply to_sig_to_id in Ha, Hb. congruence. Qed.

  (** a descriptor is valid exactly when it is a row of the table *)
  Lemma is_valid_iff s : is_valid t s = true <-> In s (map snd t).
  Proof.
    unfold is_valid. split.
    - destruct (to_id t s) as [i|] eqn:E; [|discriminate]. intros _. apply to_id_In in E. apply (in_map snd) in E. exact E.
    - intros H. apply in_map_iff in H. destruct H as [[i s'] [E H]]. cbn in E. subst s'.
      rewrite (In_to_id t i s ok_sigs H). reflexivity.
  Qed.

  (** ---------- impl Ord: a total order ---------- *)
  Lemma cmp_refl a : sig_cmp t a a = Eq.
  Proof.
    unfold sig_cmp. destruct (to_id t a); [apply Z.compare_refl|]. rewrite !Z.compare_refl. reflexivity.
  Qed.

  Lemma cmp_eq a b : sig_cmp t a b = Eq -> a = b.
  Proof.
    unfold sig_cmp. destruct (to_id t a) as [i|] eqn:Ea, (to_id t b) as [j|] eqn:Eb; try discriminate.
    - intros H. apply Z.compare_eq in H. subst j. eapply to_id_inj; eassumption.
    - destruct (fst a ?= fst b) eqn:E1; try discriminate. intros E2.
      apply Z.compare_eq in E1, E2. destruct a, b; cbn in *; subst; reflexivity.
  Qed.

  Lemma cmp_antisym a b : sig_cmp t a b = CompOpp (sig_cmp t b a).
  Proof.
    unfold sig_cmp. destruct (to_id t a) as [i|], (to_id t b) as [j|]; try reflexivity.
    - apply Z.compare_antisym.
    - rewrite (Z.compare_antisym (fst a) (fst b)). destruct (fst a ?= fst b); cbn; try reflexivity.
      apply Z.compare_antisym.
  Qed.

  Lemma cmp_trans a b c : sig_cmp t a b = Lt -> sig_cmp t b c = Lt -> sig_cmp t a c = Lt.
  Proof.
    unfold sig_cmp. destruct (to_id t a) as [i|], (to_id t b) as [j|], (to_id t c) as [k|]; try discriminate; try reflexivity.
    - rewrite !Z.compare_lt_iff. lia.
    - destruct (fst a ?= fst b) eqn:E1; try discriminate; destruct (fst b ?= fst c) eqn:E2; try discriminate; intros H1 H2.
      + apply Z.compare_eq in E1, E2. replace (fst a ?= fst c) with Eq by (symmetry; apply Z.compare_eq_iff; lia).
        rewrite Z.compare_lt_iff in *. lia.
      + apply Z.compare_eq in E1. rewrite Z.compare_lt_iff in E2. replace (fst a ?= fst c) with Lt by (symmetry; apply Z.compare_lt_iff; lia). reflexivity.
      + apply Z.compare_eq in E2. rewrite Z.compare_lt_iff in E1. replace (fst a ?= fst c) with Lt by (symmetry; apply Z.compare_lt_iff; lia). reflexivity.
      + rewrite Z.compare_lt_iff in E1, E2. replace (fst a ?= fst c) with Lt by (symmetry; apply Z.compare_lt_iff; lia). reflexivity.
  Qed.

  Lemma cmp_recognised a b i j : to_id t a = Some i -> to_id t b = Some j -> sig_cmp t a b = (i ?= j).
  Proof. unfold sig_cmp. intros -> ->. reflexivity. Qed.
  Lemma cmp_unrecognised_last a b i : to_id t a = Some i -> to_id t b = None -> sig_cmp t a b = Lt /\ sig_cmp t b a = Gt.
  Proof. unfold sig_cmp. intros -> ->. split; reflexivity. Qed.
End Table.

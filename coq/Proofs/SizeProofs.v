(** How many bits an encoder can write: every accepted message fits the 1023-byte payload window (C15, C09). *)
From Coq Require Import ZArith List Lia Bool.
From Flocq Require Import Core BinarySingleNaN.
From RtcmModel Require Import Types BitIO Floats Field SigId Text Bias Msm Layout.
From RtcmProofs Require Import ListZ FragInd EncodeLen TextProofs.
Import ListNotations.
Open Scope Z_scope.

Definition sum_lens (l : list field_spec) : Z := fold_right (fun fs acc => f_len fs + acc) 0 l.

Section Size.
  Variable cap59 cap65 : Z.

  Fixpoint max_bits (f : frag) : Z :=
    match f with
    | FField fs => f_len fs
    | FStr cap lb => lb + 8 * cap
    | FUtf8 => 15 + 8 * 255
    | FBias1059 => 6 + 64 * (6 + 5) + 19 * cap59
    | FBias1065 => 6 + 32 * (5 + 5) + 19 * cap65
    | FBias1230 => 4 + 16 * 4
    | FStruct l => (fix sum (l : list frag) : Z := match l with [] => 0 | x :: r => max_bits x + sum r end) l
    | FLenMid f1 lenf f2 elem cap =>
        (fix sum (l : list frag) : Z := match l with [] => 0 | x :: r => max_bits x + sum r end) f1
        + f_len lenf
        + (fix sum (l : list frag) : Z := match l with [] => 0 | x :: r => max_bits x + sum r end) f2
        + cap * max_bits elem
    | FVecLen elem cap lb => lb + cap * max_bits elem
    | FGrid16 elem => 16 * max_bits elem
    | FMsm g a b => 64 + 32 + 64 + 64 * sum_lens a + 64 * sum_lens b
    end.

  Definition sum_max (l : list frag) : Z := fold_right (fun x acc => max_bits x + acc) 0 l.
  Lemma sum_max_eq l : (fix sum (l : list frag) : Z := match l with [] => 0 | x :: r => max_bits x + sum r end) l = sum_max l.
  Proof. induction l as [|x r IH]; [reflexivity|]. cbn [sum_max fold_right]. f_equal; try exact IH. Qed.

  (** all widths, capacities and count widths are non-negative *)
  Fixpoint frag_wfb (f : frag) : bool :=
    match f with
    | FField fs => 0 <=? f_len fs
    | FStr cap lb => (0 <=? cap) && (0 <=? lb)
    | FUtf8 | FBias1059 | FBias1065 | FBias1230 => true
    | FStruct l => (fix all (l : list frag) : bool := match l with [] => true | x :: r => frag_wfb x && all r end) l
    | FLenMid f1 lenf f2 elem cap =>
        (fix all (l : list frag) : bool := match l with [] => true | x :: r => frag_wfb x && all r end) f1
        && (0 <=? f_len lenf)
        && (fix all (l : list frag) : bool := match l with [] => true | x :: r => frag_wfb x && all r end) f2
        && frag_wfb elem && (0 <=? cap)
    | FVecLen elem cap lb => frag_wfb elem && (0 <=? cap) && (0 <=? lb)
    | FGrid16 elem => frag_wfb elem
    | FMsm g a b => forallb (fun fs => 0 <=? f_len fs) a && forallb (fun fs => 0 <=? f_len fs) b
    end.
  Lemma all_wfb_eq l : (fix all (l : list frag) : bool := match l with [] => true | x :: r => frag_wfb x && all r end) l = forallb frag_wfb l.
  Proof. induction l as [|x r IH]; [reflexivity|]. cbn [forallb]. f_equal; try exact IH. Qed.
End Size.

(** [grows enc bound]: a successful encode moves the cursor forward by at most [bound] bits *)
Definition grows {A} (enc : astate -> A -> outcome astate) (bound : Z) : Prop :=
  forall st v st', enc st v = Ok st' -> snd st <= snd st' <= snd st + bound.

Lemma put_off k bits (st : astate) v len st' : put k bits (fst st) (snd st) v len = Ok st' -> snd st' = snd st + len.
Proof. destruct st' as [d o]. intros H. apply put_len in H. cbn. tauto. Qed.

Lemma encode_field_off fs st v st' : encode_field fs st v = Ok st' -> snd st' = snd st + f_len fs.
Proof.
  destruct st as [data off]. unfold encode_field. intros H. destruct (f_inv fs).
  - destruct v; try discriminate.
    + destruct st'. apply put_len in H. cbn. tauto.
    + bind_inv H. destruct st'. apply put_len in H. cbn. tauto.
  - bind_inv H. destruct st'. apply put_len in H. cbn. tauto.
Qed.

Lemma put_bytes_off : forall bs st st', put_bytes st bs = Ok st' -> snd st' = snd st + 8 * zlen bs.
Proof.
  induction bs as [|b r IH]; intros st st' H; cbn [put_bytes] in H; [inversion H; unfold zlen; cbn; lia|].
  bind_inv H. apply IH in H. rewrite H. rewrite (put_off _ _ _ _ _ _ E). rewrite zlen_cons. lia.
Qed.

Lemma encode_str_grows cap lb : 0 <= cap -> 0 <= lb -> grows (encode_str cap lb) (lb + 8 * cap).
Proof.
  intros Hc Hl st v st' H. unfold encode_str in H. destruct v; try discriminate. bind_inv H.
  apply put_bytes_off in H. rewrite H. rewrite (put_off _ _ _ _ _ _ E).
  assert (Hlen : 0 <= zlen (df88591_from_str cap cps) <= cap).
  { rewrite df88591_from_str_spec by exact Hc. unfold zlen. rewrite map_length, firstn_length. lia. }
  lia.
Qed.

Lemma encode_utf8_grows : grows encode_utf8 (15 + 8 * 255).
Proof.
  intros st v st' H. unfold encode_utf8 in H. destruct v; try discriminate.
  destruct (from_utf8 _); [|discriminate].
  destruct (Z.ltb_spec 255 (zlen (array_string_from 255 cps))); cbn [orb] in H; [discriminate|].
  destruct (_ <? _); [discriminate|]. bind_inv H.
  apply put_bytes_off in H. rewrite H. rewrite (put_off _ _ _ _ _ _ E0), (put_off _ _ _ _ _ _ E).
  pose proof (zlen_nonneg (array_string_from 255 cps)). lia.
Qed.

(** code-bias lists *)
Definition in_range_cnt (s n : Z) (es : list bias_entry) : Z :=
  zlen (filter (fun e => (s <=? be_sat e) && (be_sat e <? s + n)) es).

Lemma filter_len_le {A} (p : A -> bool) l : (length (filter p l) <= length l)%nat.
Proof. induction l as [|x r IH]; cbn [filter length]; [lia|]. destruct (p x); cbn [length]; lia. Qed.

Lemma in_range_cnt_le s n es : 0 <= in_range_cnt s n es <= zlen es.
Proof.
  unfold in_range_cnt, zlen. split; [lia|]. apply inj_le. apply filter_len_le.
Qed.

Lemma in_range_cnt_split s n es : 0 <= n ->
  in_range_cnt s (1 + n) es = in_range_cnt s 1 es + in_range_cnt (s + 1) n es.
Proof.
  intros Hn. unfold in_range_cnt. induction es as [|e r IH]; [reflexivity|]. cbn [filter].
  destruct (Z.leb_spec s (be_sat e)), (Z.ltb_spec (be_sat e) (s + (1 + n))), (Z.ltb_spec (be_sat e) (s + 1)),
           (Z.leb_spec (s + 1) (be_sat e)), (Z.ltb_spec (be_sat e) (s + 1 + n)); cbn [andb]; try lia;
    rewrite ?zlen_cons; lia.
Qed.

Lemma cb_put_entries_off table s : forall es st st', cb_put_entries table st s es = Ok st' ->
  snd st <= snd st' <= snd st + 19 * in_range_cnt s 1 es.
Proof.
  induction es as [|e r IH]; intros st st' H; cbn [cb_put_entries] in H.
  - inversion H. unfold in_range_cnt, zlen. cbn. lia.
  - unfold in_range_cnt in *. cbn [filter].
    destruct (Z.eqb_spec (be_sat e) s) as [Es|Es].
    + replace ((s <=? be_sat e) && (be_sat e <? s + 1)) with true by lia. rewrite zlen_cons.
      destruct (to_id table (be_sig e)).
      * bind_inv H. apply IH in H. rewrite (put_off _ _ _ _ _ _ E0), (put_off _ _ _ _ _ _ E) in H. lia.
      * apply IH in H. lia.
    + replace ((s <=? be_sat e) && (be_sat e <? s + 1)) with false by lia. apply IH. exact H.
Qed.

Lemma cb_sats_off table sat_bits es sat_mask : 0 <= sat_bits -> forall n s st st',
  cb_sats table sat_bits n s sat_mask es st = Ok st' ->
  snd st <= snd st' <= snd st + Z.of_nat n * (sat_bits + 5) + 19 * in_range_cnt s (Z.of_nat n) es.
Proof.
  intros Hsb. induction n as [|n IH]; intros s st st' H; cbn [cb_sats] in H.
  - inversion H. pose proof (in_range_cnt_le s (Z.of_nat 0) es). cbn [Z.of_nat] in *. lia.
  - rewrite Nat2Z.inj_succ. replace (Z.succ (Z.of_nat n)) with (1 + Z.of_nat n) by lia.
    rewrite in_range_cnt_split by lia.
    pose proof (in_range_cnt_le s 1 es) as B1.
    destruct (Z.testbit sat_mask s).
    + bind_inv H. destruct (_ <? _); [discriminate|]. bind_inv H. apply IH in H.
      match goal with E1 : cb_put_entries _ _ _ _ = Ok _ |- _ => apply cb_put_entries_off in E1 end.
      rewrite (put_off _ _ _ _ _ _ E0), (put_off _ _ _ _ _ _ E) in *. lia.
    + apply IH in H. lia.
Qed.

Lemma cb_encode_grows table max_sat sat_bits cap : 0 <= sat_bits -> 0 <= max_sat + 1 ->
  grows (cb_encode table max_sat sat_bits cap) (6 + (max_sat + 1) * (sat_bits + 5) + 19 * cap).
Proof.
  intros Hsb Hms st v st' H. unfold cb_encode in H. destruct v; try discriminate.
  destruct (entries_of_vals l) as [es|]; [|discriminate].
  destruct (Z.ltb_spec cap (zlen es)); [discriminate|]. bind_inv H. destruct (_ <? _); [discriminate|]. bind_inv H.
  apply (cb_sats_off table sat_bits es _ Hsb) in H. rewrite (put_off _ _ _ _ _ _ E0) in H.
  rewrite Z2Nat.id in H by lia. pose proof (in_range_cnt_le 0 (max_sat + 1) es). nia.
Qed.

Lemma b1230_put_off : forall es st st', b1230_put st es = Ok st' -> snd st' = snd st + 16 * zlen es.
Proof.
  induction es as [|[s x] r IH]; intros st st' H; cbn [b1230_put] in H; [inversion H; unfold zlen; cbn; lia|].
  bind_inv H. apply IH in H. rewrite H, (put_off _ _ _ _ _ _ E), zlen_cons. lia.
Qed.

Lemma insert_sorted_length {A} (cmp : A -> A -> comparison) x l : length (insert_sorted cmp x l) = S (length l).
Proof. induction l as [|y r IH]; [reflexivity|]. cbn [insert_sorted]. destruct (cmp x y); cbn [length]; rewrite ?IH; reflexivity. Qed.
Lemma sort_by_length {A} (cmp : A -> A -> comparison) l : length (sort_by cmp l) = length l.
Proof.
  unfold sort_by. assert (G : forall acc, length (fold_left (fun acc x => insert_sorted cmp x acc) l acc) = (length acc + length l)%nat).
  { induction l as [|x r IH]; intros acc; cbn [fold_left length]; [lia|]. rewrite IH, insert_sorted_length. lia. }
  rewrite G. reflexivity.
Qed.

Lemma b1230_encode_grows glo : grows (b1230_encode glo) (4 + 16 * 4).
Proof.
  intros st v st' H. unfold b1230_encode in H. destruct v; try discriminate.
  destruct (es1230_of_vals l) as [es|]; [|discriminate].
  destruct (Z.ltb_spec 4 (zlen es)); [discriminate|]. bind_inv H.
  apply b1230_put_off in H. rewrite H, (put_off _ _ _ _ _ _ E0).
  assert (zlen (sort_by (fun a b => sig_cmp glo (fst a) (fst b)) es) = zlen es) by (unfold zlen; rewrite sort_by_length; reflexivity).
  pose proof (zlen_nonneg es). lia.
Qed.

(** MSM *)
Lemma enc_column_off fs skip k : forall rows st st', enc_column fs skip k rows st = Ok st' -> snd st' = snd st + zlen rows * f_len fs.
Proof.
  induction rows as [|v r IH]; intros st st' H; cbn [enc_column] in H; [inversion H; unfold zlen; cbn; lia|].
  destruct (row_field skip k v); [|discriminate]. bind_inv H. apply IH in H. rewrite H, (encode_field_off _ _ _ _ E), zlen_cons. lia.
Qed.
Lemma enc_columns_off skip rows : forall specs k st st', enc_columns specs skip k rows st = Ok st' ->
  snd st' = snd st + zlen rows * sum_lens specs.
Proof.
  induction specs as [|fs r IH]; intros k st st' H; cbn [enc_columns] in H; [inversion H; cbn; lia|].
  bind_inv H. apply IH in H. rewrite H, (enc_column_off _ _ _ _ _ _ E). cbn [sum_lens fold_right]. fold (sum_lens r). lia.
Qed.

Lemma popcount_loop_nonneg n : forall sh mask c, 0 <= c -> 0 <= popcount_loop n sh mask c.
Proof. induction n as [|n IH]; intros sh mask c H; cbn [popcount_loop]; [exact H|]. apply IH. destruct (Z.testbit mask sh); lia. Qed.

Lemma mask_len_nonneg w m : 0 <= mask_len w m.
Proof. unfold mask_len. apply popcount_loop_nonneg. lia. Qed.

Lemma msm_encode_grows tbl a b : 0 <= sum_lens a -> 0 <= sum_lens b ->
  grows (msm_encode tbl a b) (64 + 32 + 64 + 64 * sum_lens a + 64 * sum_lens b).
Proof.
  intros Ha Hb st v st' H. unfold msm_encode in H. peel H.
  match type of H with (if ?c then _ else _) = _ => destruct c eqn:Hcap; [discriminate|] end.
  apply orb_false_iff in Hcap. destruct Hcap as [Hc1 Hc2]. apply Z.ltb_ge in Hc1, Hc2.
  peel H.
  1: { bind_inv H. rewrite (put_off _ _ _ _ _ _ H), (put_off _ _ _ _ _ _ E). lia. }
  all: bind_inv H; destruct (negb _); [discriminate|]; cbv zeta in H;
    match type of H with (if ?c then _ else _) = _ => destruct c eqn:Hccl; [discriminate|] end;
    apply Z.ltb_ge in Hccl; bind_inv H;
    unfold enc_sig_rows in H; apply enc_columns_off in H;
    match goal with E1 : enc_sat_rows _ _ _ = Ok _ |- _ => unfold enc_sat_rows in E1; apply enc_columns_off in E1 end;
    repeat match goal with E1 : put _ _ (fst ?x) (snd ?x) _ _ = Ok _ |- _ => apply put_off in E1 end;
    repeat match goal with |- context [zlen (sort_by ?c ?l)] => replace (zlen (sort_by c l)) with (zlen l) by (unfold zlen; rewrite sort_by_length; reflexivity) end;
    repeat match goal with Hx : context [zlen (sort_by ?c ?l)] |- _ => replace (zlen (sort_by c l)) with (zlen l) in Hx by (unfold zlen; rewrite sort_by_length; reflexivity) end;
    repeat match goal with Hx : context [mask_len ?w ?m] |- _ =>
             lazymatch goal with Hy : 0 <= mask_len w m |- _ => fail | _ => pose proof (mask_len_nonneg w m) end end;
    repeat match goal with Hx : context [zlen ?l] |- _ =>
             lazymatch goal with Hz : 0 <= zlen l |- _ => fail | _ => pose proof (zlen_nonneg l) end end;
    try change (zlen (@nil val)) with 0 in *;
    nia.
Qed.

Section Frag.
  Variable sigt : gnss -> sigtable.
  Variable ssr59 ssr65 : sigtable.
  Variable cap59 cap65 : Z.
  Hypothesis Hc59 : 0 <= cap59.
  Hypothesis Hc65 : 0 <= cap65.

  Notation enc := (encode_frag sigt ssr59 ssr65 cap59 cap65).
  Notation mb := (max_bits cap59 cap65).

  Lemma sum_lens_nonneg l : forallb (fun fs => 0 <=? f_len fs) l = true -> 0 <= sum_lens l.
  Proof.
    induction l as [|x r IH]; intros Hw; cbn [sum_lens fold_right]; [lia|]. cbn [forallb] in Hw. apply andb_true_iff in Hw.
    destruct Hw as [Hx Hr]. apply Z.leb_le in Hx. specialize (IH Hr). fold (sum_lens r). lia.
  Qed.

  Lemma sum_max_nonneg l : Forall (fun f => frag_wfb f = true -> 0 <= mb f) l -> forallb frag_wfb l = true -> 0 <= sum_max cap59 cap65 l.
  Proof.
    intros Hl. induction Hl as [|x r Hx _ IH]; intros Hw; cbn [sum_max fold_right]; [lia|].
    cbn [forallb] in Hw. apply andb_true_iff in Hw. destruct Hw as [Hx0 Hr0]. specialize (Hx Hx0). specialize (IH Hr0).
    fold (sum_max cap59 cap65 r). lia.
  Qed.

  Lemma max_bits_nonneg : forall f, frag_wfb f = true -> 0 <= mb f.
  Proof.
    apply (frag_ind' (fun f => frag_wfb f = true -> 0 <= mb f)).
    - intros fs H. cbn [max_bits frag_wfb] in *. apply Z.leb_le. exact H.
    - intros cap lb H. cbn [max_bits frag_wfb] in *. apply andb_true_iff in H. destruct H as [H1 H2]. apply Z.leb_le in H1, H2. lia.
    - intros _. cbn [max_bits]. lia.
    - intros _. cbn [max_bits]. lia.
    - intros _. cbn [max_bits]. lia.
    - intros _. cbn [max_bits]. lia.
    - intros l Hl H. cbn [max_bits frag_wfb] in *. rewrite sum_max_eq. rewrite all_wfb_eq in H. apply sum_max_nonneg; assumption.
    - intros f1 lenf f2 elem cap H1 H2 He H. cbn [max_bits frag_wfb] in *. rewrite !sum_max_eq. rewrite !all_wfb_eq in H.
      apply andb_true_iff in H. destruct H as [H Hcap]. apply andb_true_iff in H. destruct H as [H Hel].
      apply andb_true_iff in H. destruct H as [H Hf2]. apply andb_true_iff in H. destruct H as [Hf1 Hlen].
      apply Z.leb_le in Hcap, Hlen. specialize (He Hel).
      pose proof (sum_max_nonneg f1 H1 Hf1). pose proof (sum_max_nonneg f2 H2 Hf2). nia.
    - intros elem cap lb He H. cbn [max_bits frag_wfb] in *. apply andb_true_iff in H. destruct H as [H Hlb]. apply andb_true_iff in H.
      destruct H as [Hel Hcap]. apply Z.leb_le in Hcap, Hlb. specialize (He Hel). nia.
    - intros elem He H. cbn [max_bits frag_wfb] in *. specialize (He H). lia.
    - intros g a b H. cbn [max_bits frag_wfb] in *. apply andb_true_iff in H. destruct H as [Ha Hb].
      pose proof (sum_lens_nonneg a Ha). pose proof (sum_lens_nonneg b Hb). lia.
  Qed.

  (** the main bound: a successful encode of fragment f moves the cursor forward by at most max_bits f *)
  Lemma encode_list_grows : forall fl, Forall (fun f => frag_wfb f = true -> grows (enc f) (mb f)) fl ->
    forallb frag_wfb fl = true ->
    forall vs st st',
      (fix go (fl : list frag) (vs : list val) (st : astate) {struct fl} : outcome astate :=
         match fl, vs with
         | [], [] => Ok st
         | f' :: fl', v' :: vs' => st' <- enc f' st v' ;; go fl' vs' st'
         | _, _ => Panic
         end) fl vs st = Ok st' -> snd st <= snd st' <= snd st + sum_max cap59 cap65 fl.
  Proof.
    induction 1 as [|f fl Hf _ IH]; intros Hw vs st st' H.
    - destruct vs; [inversion H; cbn; lia|discriminate].
    - destruct vs as [|v vs]; [discriminate|]. cbn [forallb] in Hw. apply andb_true_iff in Hw. destruct Hw as [Hwf Hwr].
      bind_inv H. apply (IH Hwr) in H. apply (Hf Hwf) in E. cbn [sum_max fold_right]. fold (sum_max cap59 cap65 fl). lia.
  Qed.

  Lemma encode_elems_grows elem : grows (enc elem) (mb elem) -> 0 <= mb elem ->
    forall l st st',
      (fix elems (l : list val) (st : astate) {struct l} : outcome astate :=
         match l with
         | [] => Ok st
         | x :: r => st' <- enc elem st x ;; elems r st'
         end) l st = Ok st' -> snd st <= snd st' <= snd st + zlen l * mb elem.
  Proof.
    intros He Hm. induction l as [|x r IH]; intros st st' H; [inversion H; unfold zlen; cbn; lia|].
    bind_inv H. apply IH in H. apply He in E. rewrite zlen_cons. nia.
  Qed.

  Theorem encode_frag_grows : forall f, frag_wfb f = true -> grows (enc f) (mb f).
  Proof.
    apply (frag_ind' (fun f => frag_wfb f = true -> grows (enc f) (mb f))).
    - intros fs Hw st v st' H. cbn [encode_frag max_bits frag_wfb] in *. apply Z.leb_le in Hw. apply encode_field_off in H. lia.
    - intros cap lb Hw. cbn [frag_wfb] in Hw. apply andb_true_iff in Hw. destruct Hw as [H1 H2]. apply Z.leb_le in H1, H2.
      exact (encode_str_grows cap lb H1 H2).
    - intros _. exact encode_utf8_grows.
    - intros _ st v st' H. cbn [encode_frag max_bits] in *. apply (cb_encode_grows ssr59 63 6 cap59) in H; lia.
    - intros _ st v st' H. cbn [encode_frag max_bits] in *. apply (cb_encode_grows ssr65 31 5 cap65) in H; lia.
    - intros _. apply b1230_encode_grows.
    - intros l Hl Hw st v st' H. cbn [encode_frag max_bits frag_wfb] in *. rewrite all_wfb_eq in Hw. rewrite sum_max_eq.
      destruct v; try discriminate. eapply encode_list_grows; eassumption.
    - intros f1 lenf f2 elem cap H1 H2 He Hw st v st' H. cbn [encode_frag max_bits frag_wfb] in *. rewrite !sum_max_eq. rewrite !all_wfb_eq in Hw.
      apply andb_true_iff in Hw. destruct Hw as [Hw Hcap]. apply andb_true_iff in Hw. destruct Hw as [Hw Hel].
      apply andb_true_iff in Hw. destruct Hw as [Hw Hf2]. apply andb_true_iff in Hw. destruct Hw as [Hf1 Hlen].
      apply Z.leb_le in Hcap, Hlen.
      destruct v; try discriminate. peel_any H.
      match goal with Hc : (cap <? zlen ?l0) = false |- _ => apply Z.ltb_ge in Hc end.
      bind_inv H.
      apply (encode_elems_grows elem (He Hel) (max_bits_nonneg elem Hel)) in H.
      match goal with E1 : _ f2 _ _ = Ok _ |- _ => apply (encode_list_grows f2 H2 Hf2) in E1 end.
      match goal with E1 : encode_field _ _ _ = Ok _ |- _ => apply encode_field_off in E1 end.
      match goal with E1 : _ f1 _ _ = Ok _ |- _ => apply (encode_list_grows f1 H1 Hf1) in E1 end.
      pose proof (max_bits_nonneg elem Hel).
      match goal with |- context [zlen ?l0] => pose proof (zlen_nonneg l0) | _ => idtac end.
      repeat match goal with Hx : context [zlen ?l0] |- _ => lazymatch goal with Hz : 0 <= zlen l0 |- _ => fail | _ => pose proof (zlen_nonneg l0) end end.
      nia.
    - intros elem cap lb He Hw st v st' H. cbn [encode_frag max_bits frag_wfb] in *.
      apply andb_true_iff in Hw. destruct Hw as [Hw Hlb]. apply andb_true_iff in Hw. destruct Hw as [Hel Hcap]. apply Z.leb_le in Hcap, Hlb.
      destruct v; try discriminate. destruct (Z.ltb_spec cap (zlen l)); [discriminate|]. bind_inv H.
      apply (encode_elems_grows elem (He Hel) (max_bits_nonneg elem Hel)) in H. apply put_off in E.
      pose proof (max_bits_nonneg elem Hel). pose proof (zlen_nonneg l). nia.
    - intros elem He Hw st v st' H. cbn [encode_frag max_bits frag_wfb] in *. destruct v; try discriminate.
      destruct (Z.eqb_spec (zlen l) 16); cbn [negb] in H; [|discriminate].
      apply (encode_elems_grows elem (He Hw) (max_bits_nonneg elem Hw)) in H. pose proof (max_bits_nonneg elem Hw). nia.
    - intros g a b Hw st v st' H. cbn [encode_frag max_bits frag_wfb] in *. apply andb_true_iff in Hw. destruct Hw as [Ha Hb].
      apply (msm_encode_grows (sigt g) a b (sum_lens_nonneg a Ha) (sum_lens_nonneg b Hb)) in H. exact H.
  Qed.
End Frag.

From Coq Require Import ZArith List Lia Bool.
Import ListNotations.
Open Scope Z_scope.
Ltac Zify.zify_post_hook ::= Z.div_mod_to_equations.

(* u8 helpers *)
Definition shl8 (x k : Z) := (Z.shiftl x k) mod 256.

Fixpoint parse_loop (bytes : list Z) (i dlen lh_st rh_en lenlft val : Z) : Z :=
  match bytes with
  | [] => val
  | d :: rest =>
    let b := d in
    let b := if i =? 0 then Z.land b (Z.shiftr 255 lh_st) else b in
    let nbits := if i =? 0 then 8 - lh_st else 8 in
    let b := if i =? dlen - 1 then Z.land b (shl8 255 rh_en) else b in
    let nbits := if i =? dlen - 1 then nbits - rh_en else nbits in
    let bpos := if i =? dlen - 1 then rh_en else 0 in
    let lenlft := lenlft - nbits in
    let b := if bpos >=? lenlft then Z.shiftr b (bpos - lenlft) else b in
    let val := Z.lor val (if bpos >=? lenlft then b else Z.shiftl b (lenlft - bpos)) in
    parse_loop rest (i + 1) dlen lh_st rh_en lenlft val
  end.

(* big-endian number of a byte list *)
Fixpoint be (l : list Z) : Z := match l with [] => 0 | d :: r => d * 256 ^ (Z.of_nat (length r)) + be r end.

Lemma land_low b k : 0 <= b < 256 -> 0 <= k <= 8 -> Z.land b (Z.shiftr 255 k) = b mod 2 ^ (8 - k).
Proof.
  intros Hb Hk. replace (Z.shiftr 255 k) with (Z.ones (8 - k)).
  - apply Z.land_ones; lia.
  - assert (k = 0 \/ k = 1 \/ k = 2 \/ k = 3 \/ k = 4 \/ k = 5 \/ k = 6 \/ k = 7 \/ k = 8) as H by lia.
    repeat (destruct H as [->|H]; [reflexivity|]); subst; reflexivity.
Qed.

Lemma land_high b k : 0 <= b < 256 -> 0 <= k < 8 -> Z.land b (shl8 255 k) = (b / 2 ^ k) * 2 ^ k.
Proof.
  intros Hb Hk.
  assert (k = 0 \/ k = 1 \/ k = 2 \/ k = 3 \/ k = 4 \/ k = 5 \/ k = 6 \/ k = 7) as H by lia.
  assert (Hx: forall m, 0 <= m < 8 -> shl8 255 m = 255 - Z.ones m).
  { intros m Hm. assert (m = 0 \/ m = 1 \/ m = 2 \/ m = 3 \/ m = 4 \/ m = 5 \/ m = 6 \/ m = 7) as H' by lia.
    repeat (destruct H' as [->|H']; [reflexivity|]); subst; reflexivity. }
  rewrite Hx by lia.
  (* b land (255 - ones k) = b - b land ones k *)
  replace (255 - Z.ones k) with (Z.ldiff 255 (Z.ones k)).
  2:{ repeat (destruct H as [->|H]; [reflexivity|]); subst; reflexivity. }
  rewrite Z.land_comm, Z.ldiff_land, <- Z.land_assoc.
  replace (Z.land (Z.lnot (Z.ones k)) b) with (Z.ldiff b (Z.ones k)) by (rewrite Z.ldiff_land, Z.land_comm; reflexivity).
  rewrite Z.ldiff_ones_r by lia.
  rewrite Z.land_comm. change 255 with (Z.ones 8). rewrite Z.land_ones by lia.
  rewrite Z.shiftr_div_pow2, Z.shiftl_mul_pow2 by lia.
  rewrite Z.mod_small; [reflexivity|].
  assert (0 < 2^k) by (apply Z.pow_pos_nonneg; lia).
  split; [apply Z.mul_nonneg_nonneg; [apply Z.div_pos|]; lia|].
  pose proof (Z.mul_div_le b (2^k)). lia.
Qed.

Lemma land_disjoint a b k : 0 <= k -> 0 <= b < 2 ^ k -> Z.land (a * 2 ^ k) b = 0.
Proof.
  intros Hk Hb. apply Z.bits_inj'. intros n Hn. rewrite Z.land_spec, Z.bits_0.
  destruct (Z_lt_ge_dec n k).
  - rewrite Z.mul_pow2_bits_low by lia. reflexivity.
  - destruct (Z.eq_dec b 0) as [->|Hb0]; [rewrite Z.bits_0; apply andb_false_r|].
    rewrite (Z.bits_above_log2 b n); [apply andb_false_r|lia|].
    apply Z.lt_le_trans with k; [|lia].
    apply Z.log2_lt_pow2; lia.
Qed.
Lemma lor_disjoint a b k : 0 <= k -> 0 <= b < 2 ^ k -> Z.lor (a * 2 ^ k) b = a * 2 ^ k + b.
Proof.
  intros Hk Hb. pose proof (land_disjoint a b k Hk Hb) as H.
  rewrite <- Z.lxor_lor by exact H. symmetry. apply Z.add_nocarry_lxor. exact H.
Qed.

Definition bytes_ok (l : list Z) := Forall (fun b => 0 <= b < 256) l.

Lemma be_bound l : bytes_ok l -> 0 <= be l < 256 ^ Z.of_nat (length l).
Proof.
  induction 1 as [|b r Hb Hr IH]; cbn [be length]; [lia|].
  rewrite Nat2Z.inj_succ, Z.pow_succ_r by lia.
  assert (0 < 256 ^ Z.of_nat (length r)) by (apply Z.pow_pos_nonneg; lia). nia.
Qed.

Lemma pow256 n : 0 <= n -> 256 ^ n = 2 ^ (8 * n).
Proof. intros. change 256 with (2^8). rewrite <- Z.pow_mul_r by lia. reflexivity. Qed.

(* tail steps: i >= 1 *)
Lemma parse_loop_tail : forall rest i dlen lh_st rh_en V,
  bytes_ok rest -> 1 <= i -> Z.of_nat (length rest) = dlen - i -> 0 <= rh_en < 8 -> (rest <> []) ->
  let R := 8 * (dlen - i) - rh_en in
  parse_loop rest i dlen lh_st rh_en R (V * 2 ^ R) = V * 2 ^ R + be rest / 2 ^ rh_en.
Proof.
  induction rest as [|d rest IH]; intros i dlen lh_st rh_en V Hok Hi Hlen Hrh Hne R; [congruence|].
  inversion Hok as [|? ? Hd Hok']; subst.
  cbn [parse_loop be length] in *.
  replace (i =? 0) with false by (symmetry; apply Z.eqb_neq; lia).
  destruct rest as [|d2 rest2].
  - (* last byte *)
    cbn [length] in Hlen. assert (i = dlen - 1) by lia. subst i.
    rewrite Z.eqb_refl. cbn [parse_loop be length].
    subst R. replace (8 * (dlen - (dlen - 1)) - rh_en) with (8 - rh_en) by lia.
    replace (8 - rh_en - (8 - rh_en)) with 0 by lia.
    replace (rh_en >=? 0) with true by (symmetry; apply Z.geb_le; lia).
    rewrite Z.sub_0_r, land_high by lia.
    rewrite Z.shiftr_div_pow2 by lia.
    assert (0 < 2 ^ rh_en) by (apply Z.pow_pos_nonneg; lia).
    rewrite Z.div_mul by lia.
    change (Z.of_nat 0) with 0. rewrite Z.pow_0_r, Z.mul_1_r, Z.add_0_r.
    apply lor_disjoint; [lia|].
    split; [apply Z.div_pos; lia|].
    apply Z.div_lt_upper_bound; [lia|]. rewrite <- Z.pow_add_r by lia.
    replace (rh_en + (8 - rh_en)) with 8 by lia. lia.
  - (* middle byte *)
    cbn [length] in Hlen.
    replace (i =? dlen - 1) with false by (symmetry; apply Z.eqb_neq; lia).
    set (R' := R - 8).
    assert (HR' : R' = 8 * (dlen - (i + 1)) - rh_en) by (subst R R'; lia).
    assert (0 < R') by lia.
    replace (0 >=? R') with false by (symmetry; rewrite Z.geb_leb; apply Z.leb_gt; lia).
    rewrite Z.sub_0_r, Z.shiftl_mul_pow2 by lia.
    assert (Hlor: Z.lor (V * 2 ^ R) (d * 2 ^ R') = (V * 256 + d) * 2 ^ R').
    { replace R with (8 + R') by (subst R'; lia). rewrite Z.pow_add_r by lia.
      replace (V * (2 ^ 8 * 2 ^ R')) with ((V * 2 ^ 8) * 2 ^ R') by ring.
      rewrite <- Z.shiftl_mul_pow2, <- (Z.shiftl_mul_pow2 d), <- Z.shiftl_lor by lia.
      rewrite lor_disjoint by lia. rewrite Z.shiftl_mul_pow2 by lia. reflexivity. }
    rewrite Hlor. rewrite HR'.
    rewrite (IH (i + 1) dlen lh_st rh_en (V * 256 + d)); try assumption; try lia; try congruence.
    2:{ cbn [length]. lia. }
    rewrite <- HR'.
    replace R with (8 + R') by (subst R'; lia). rewrite Z.pow_add_r by lia.
    (* be (d :: d2 :: rest2) / 2^rh = d * 2^R' + be (d2::rest2) / 2^rh *)
    set (n := Z.of_nat (length (d2 :: rest2))).
    assert (Hn : 8 * n = R' + rh_en) by (subst n R' R; cbn [length]; lia).
    rewrite pow256 by lia. rewrite Hn, Z.pow_add_r by lia.
    assert (0 < 2 ^ rh_en) by (apply Z.pow_pos_nonneg; lia).
    replace (d * (2 ^ R' * 2 ^ rh_en) + be (d2 :: rest2)) with (be (d2 :: rest2) + (d * 2 ^ R') * 2 ^ rh_en) by ring.
    rewrite Z.div_add by lia. ring.
Qed.

(** C07 -- bit-field packing is exact: right bits, right order, nothing else touched.
    Proofs are in Proofs/BitProofs.v, about Model/BitIO.v, the statement-by-statement transliteration of
    src/df/assembler.rs, src/df/parser.rs and src/df/bit_value.rs (tied to the code by the PUT/PARSE
    correspondence through the verification hook). *)
From Coq Require Import ZArith List Lia Bool.
From RtcmModel Require Import Types BitIO.
From RtcmProofs Require Import ListZ BitProofs.
Import ListNotations.
Open Scope Z_scope.

(** Writing a [len]-bit field at any bit offset of any buffer, for any carrier of at least 8 bits with
    1 <= len <= bits: no panic; the cursor advances by len; the buffer keeps its length; and for every bit
    position g of the buffer (MSB first) the new bit is bit (offset+len-1-g) of the (sign-fixed) value inside
    the field -- most significant bit first -- and the old bit everywhere else. *)
Theorem C07_put_bits : forall k bits data offset value len value',
  8 <= bits -> 1 <= len <= bits -> 0 <= offset -> offset + len <= 8 * zlen data -> bytes_ok data = true ->
  sign_fix_rev k bits value len = Ok value' ->
  exists data', put k bits data offset value len = Ok (data', offset + len) /\
                zlen data' = zlen data /\ bytes_ok data' = true /\
                forall g, 0 <= g < 8 * zlen data ->
                  bitat data' g = if (offset <=? g) && (g <? offset + len) then Z.testbit value' (offset + len - 1 - g) else bitat data g.
Proof. exact put_bits. Qed.

(** a write that would extend past the end of the buffer reports a buffer overflow; the result carries
    neither a new buffer nor a new cursor *)
Theorem C07_put_overflow : forall k bits data offset value len,
  8 * zlen data < offset + len -> put k bits data offset value len = Err BufferOverflow.
Proof. exact put_overflow. Qed.

Example C07_example : put KI 16 [255; 0; 255] 5 (-3) 6 = Ok ([255; 160; 255], 11).
Proof. vm_compute. reflexivity. Qed.

Print Assumptions C07_put_bits.
Print Assumptions C07_put_overflow.

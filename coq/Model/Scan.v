(** next_msg_frame and MsgFrameIter (src/lib.rs), and the caller-side streaming contract of C06. *)
From Coq Require Import ZArith List Bool.
From RtcmModel Require Import Types Crc Frame.
Import ListNotations.
Open Scope Z_scope.

(** [scan_from i d]: the loop of next_msg_frame over the suffix [d] of the buffer, [i] = index of
    the first byte of [d] in the buffer.  Result: (consumed, frame). *)
Fixpoint scan_from (i : Z) (d : list Z) : outcome (Z * option frame) :=
  match d with
  | [] => Ok (i, None)
  | b :: rest =>
      if b =? 211 then
        match frame_new d with
        | Ok m => Ok (i + frame_len m, Some m)
        | Err Incomplete => Ok (i, None)
        | Err NotValid => scan_from (i + 1) rest
        | _ => Panic                      (* unreachable!() *)
        end
      else scan_from (i + 1) rest
  end.

Definition scan (d : list Z) : outcome (Z * option frame) := scan_from 0 d.

(** MsgFrameIter: state = index; [iter_next] is one call of Iterator::next. *)
Definition iter_next (data : list Z) (index : Z) : outcome (Z * option frame) :=
  if zlen data <=? index then Ok (index, None)
  else
    '(consumed, mf) <- scan (zskipn index data) ;;
    Ok (index + consumed, mf).

(** drive the iterator until it returns None (a [for] loop over it); fuel = a bound on the number
    of calls, see Proofs: |data| + 1 is always enough. *)
Fixpoint iter_all (fuel : nat) (data : list Z) (index : Z) (acc : list (Z * frame))
  : outcome (Z * list (Z * frame)) :=
  match fuel with
  | O => Panic
  | S fuel' =>
      '(index', mf) <- iter_next data index ;;
      match mf with
      | None => Ok (index', rev acc)
      | Some f => iter_all fuel' data index' ((index' - frame_len f, f) :: acc)
      end
  end.

Definition iter_run (data : list Z) : outcome (Z * list (Z * frame)) :=
  iter_all (S (length data)) data 0 [].

(** The caller of C06: keeps the unconsumed tail, appends chunks, calls the scanner. *)
Inductive sop := Append (chunk : list Z) | Call.

Record cstate := {
  cs_tail : list Z;
  cs_delivered : list (Z * frame);   (* absolute start offset, frame *)
  cs_consumed : Z
}.

Definition cs_init : cstate := {| cs_tail := []; cs_delivered := []; cs_consumed := 0 |}.

Definition cs_step (s : cstate) (o : sop) : outcome cstate :=
  match o with
  | Append c => Ok {| cs_tail := cs_tail s ++ c; cs_delivered := cs_delivered s; cs_consumed := cs_consumed s |}
  | Call =>
      '(c, mf) <- scan (cs_tail s) ;;
      Ok {| cs_tail := zskipn c (cs_tail s);
            cs_delivered := match mf with
                            | Some f => cs_delivered s ++ [(cs_consumed s + c - frame_len f, f)]
                            | None => cs_delivered s
                            end;
            cs_consumed := cs_consumed s + c |}
  end.

Fixpoint cs_run (s : cstate) (ops : list sop) : outcome cstate :=
  match ops with
  | [] => Ok s
  | o :: r => s' <- cs_step s o ;; cs_run s' r
  end.

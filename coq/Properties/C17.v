(** C17 -- text fields are preserved exactly or cut on a character boundary.
    Statements only; proofs are in Proofs/TextProofs.v.  A Rust &str is a list of Unicode scalar values;
    core::str::from_utf8 / char::encode_utf8 are specified by RFC 3629 (Model/Text.v).
    PARTIAL: the conversions, the UTF-8 validity and the decoder's rejection of invalid UTF-8 are proved;
    the round trip of these fields through a whole message rests on the bit-packing round trip (C07) and
    is covered by the correspondence only. *)
From Coq Require Import ZArith List Lia Bool.
From RtcmModel Require Import Types BitIO Field Text.
From RtcmProofs Require Import ListZ TextProofs.
Import ListNotations.
Open Scope Z_scope.

(** descriptor field: the first N characters, code 1..255 as that byte, every other character as 0xA4 *)
Theorem C17_df88591_from_str : forall N s, 0 <= N ->
  df88591_from_str N s = map from_char (firstn (Z.to_nat N) s) /\
  df88591_chars (df88591_from_str N s) = map from_char (firstn (Z.to_nat N) s).
Proof. intros N s HN. split; [apply df88591_from_str_spec|apply df88591_chars_spec]; exact HN. Qed.

Theorem C17_from_char : forall c, (1 <= c <= 255 -> from_char c = c) /\ (~ (1 <= c <= 255) -> from_char c = 164).
Proof. intros c. split; [apply from_char_id|apply from_char_other]. Qed.

(** UTF-8 text field: the longest prefix of whole characters that fits the byte capacity *)
Theorem C17_array_string_prefix : forall N s, 0 <= N ->
  let k := fit_count N 0 s in
  array_string_from N s = utf8_encode (firstn k s) /\
  utf8_total (firstn k s) <= N /\
  ((k < length s)%nat -> N < utf8_total (firstn (S k) s)).
Proof. exact array_string_from_spec. Qed.

(** ... and always valid UTF-8, reading back as exactly the characters kept *)
Theorem C17_utf8_valid : forall N s, 0 <= N -> forallb scalar_ok s = true ->
  from_utf8 (array_string_from N s) = Some (firstn (fit_count N 0 s) s).
Proof. exact array_string_valid. Qed.

Theorem C17_utf8_roundtrip : forall cs, forallb scalar_ok cs = true -> from_utf8 (utf8_encode cs) = Some cs.
Proof. exact utf8_roundtrip. Qed.

(** text of more than 127 characters (or 255 bytes) is refused by the 1029 encoder *)
Theorem C17_text_too_long : forall st cs chars,
  from_utf8 (array_string_from 255 cs) = Some chars -> 127 < zlen chars ->
  encode_utf8 st (VStr cs) = Err BufferOverflow.
Proof.
  intros st cs chars H Hl. unfold encode_utf8. rewrite H.
  destruct (Z.ltb_spec 255 (zlen (array_string_from 255 cs))); cbn [orb]; [reflexivity|].
  destruct (Z.ltb_spec 127 (zlen chars)); [reflexivity|lia].
Qed.

(** a text whose bytes are not valid UTF-8 makes the 1029 decoder fail (hence Corrupt) *)
Theorem C17_invalid_utf8_rejected : forall data off n off1 len off2,
  parse KU 8 data off 7 = Ok (n, off1) -> parse KU 8 data off1 8 = Ok (len, off2) ->
  off2 / 8 <= zlen data -> len <= zlen (zskipn (off2 / 8) data) ->
  from_utf8 (zfirstn len (zskipn (off2 / 8) data)) = None ->
  decode_utf8 data off = Err InvalidUtf8String.
Proof.
  intros data off n off1 len off2 P1 P2 H1 H2 Hbad. unfold decode_utf8. rewrite P1. cbn [bind]. rewrite P2. cbn [bind].
  destruct (Z.ltb_spec (zlen data) (off2 / 8)); [lia|].
  destruct (Z.ltb_spec (zlen (zskipn (off2 / 8) data)) len); [lia|]. rewrite Hbad. reflexivity.
Qed.

(** non-vacuity: 'A', U+00E9, NUL, U+20AC into a 3-character descriptor; and the euro sign does not fit 4 bytes after "ab" *)
Example C17_example_desc : df88591_from_str 3 [65; 233; 0; 8364] = [65; 233; 164].
Proof. reflexivity. Qed.
Example C17_example_utf8 : array_string_from 4 [97; 98; 8364; 99] = [97; 98] /\ array_string_from 5 [97; 98; 8364; 99] = [97; 98; 226; 130; 172].
Proof. split; reflexivity. Qed.
Example C17_example_invalid : from_utf8 [237; 160; 128] = None /\ from_utf8 [192; 175] = None.
Proof. split; reflexivity. Qed.

Print Assumptions C17_df88591_from_str.
Print Assumptions C17_array_string_prefix.
Print Assumptions C17_utf8_valid.
Print Assumptions C17_invalid_utf8_rejected.

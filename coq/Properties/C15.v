(** C15 -- lists of every admissible length survive; counts and capacities agree.
    Proofs are in Proofs/SizeProofs.v and Proofs/DecodeBound.v; the layouts are regenerated from the
    msg!/frag_vec!/... invocations of /repo on every run and the table obligations re-checked.
    PARTIAL: that the count on the wire equals the number of elements and that decoding returns them in
    order rests on the bit-packing round trip (C07) and is covered by the correspondence only. *)
From Coq Require Import ZArith List Lia Bool.
From RtcmModel Require Import Types BitIO Field Layout Message Top.
From RtcmGen Require Import GenSignals GenLayouts.
From RtcmProofs Require Import ListZ SizeProofs DecodeBound.
Import ListNotations.
Open Scope Z_scope.

Notation mb := (max_bits SAT_CAP_1059 SAT_CAP_1065).

(** table obligation [layouts_fit]: every layout is well formed and, together with the 12-bit message
    number, its largest admissible content fits the 1023-byte (8184-bit) payload window *)
Theorem C15_layouts_fit : forallb (fun m => frag_wfb (snd m) && (12 + mb (snd m) <=? 8184)) messages = true.
Proof. vm_compute. reflexivity. Qed.

(** every count-prefixed list and string: (capacity, width of its count field) *)
Fixpoint counted (f : frag) : list (Z * Z) :=
  match f with
  | FStr cap lb => [(cap, lb)]
  | FStruct l => (fix go (l : list frag) : list (Z * Z) := match l with [] => [] | x :: r => counted x ++ go r end) l
  | FLenMid f1 lenf f2 elem cap =>
      (fix go (l : list frag) : list (Z * Z) := match l with [] => [] | x :: r => counted x ++ go r end) f1
      ++ [(cap, f_len lenf)]
      ++ (fix go (l : list frag) : list (Z * Z) := match l with [] => [] | x :: r => counted x ++ go r end) f2
      ++ counted elem
  | FVecLen elem cap lb => (cap, lb) :: counted elem
  | FGrid16 elem => counted elem
  | _ => []
  end.

(** table obligation [counts_fit]: every capacity is representable in its count field, so a count never wraps *)
Theorem C15_counts_fit :
  forallb (fun m => forallb (fun c => (0 <=? fst c) && (fst c <? 2 ^ snd c)) (counted (snd m))) messages = true.
Proof. vm_compute. reflexivity. Qed.

(** every message of the table that the encoder accepts ends within the payload window: at most 8184 bits
    (so BufferOverflow is unreachable through build_message and every frame is at most 1029 bytes) *)
Theorem C15_size : forall n lay st v st', In (n, lay) messages -> snd st = 12 ->
  t_encode_frag lay st v = Ok st' -> 12 <= snd st' <= 8184.
Proof.
  intros n lay st v st' Hin H12 H.
  pose proof C15_layouts_fit as Hfit. rewrite forallb_forall in Hfit. specialize (Hfit _ Hin). cbn [snd] in Hfit.
  apply andb_true_iff in Hfit. destruct Hfit as [Hwf Hle]. apply Z.leb_le in Hle.
  apply (encode_frag_grows sig_table ssr_table_1059 ssr_table_1065 SAT_CAP_1059 SAT_CAP_1065 ltac:(vm_compute; discriminate) ltac:(vm_compute; discriminate) lay Hwf) in H.
  lia.
Qed.

(** a successful decode of a layout without the free-text field never reads past the end of the payload:
    a body shorter than its counts imply cannot decode (it is Corrupt) *)
Theorem C15_truncated : forall lay data off v off', no_utf8 lay = true ->
  t_decode_frag lay data off = Ok (v, off') -> off <= 8 * zlen data -> off' <= 8 * zlen data.
Proof. intros lay data off v off' Hn. apply (decode_frag_within sig_table ssr_table_1059 ssr_table_1065 SAT_CAP_1059 SAT_CAP_1065 lay Hn). Qed.

(** a count field above the capacity is refused with CapacityExceeded (hence Corrupt) *)
Theorem C15_over_capacity_vec : forall elem cap lb data off len off1,
  parse KU 16 data off lb = Ok (len, off1) -> cap < len -> t_decode_frag (FVecLen elem cap lb) data off = Err CapacityExceeded.
Proof. intros. eapply veclen_over_capacity; eassumption. Qed.
Theorem C15_over_capacity_str : forall cap lb data off len off1,
  parse KU 8 data off lb = Ok (len, off1) -> cap < len -> t_decode_frag (FStr cap lb) data off = Err CapacityExceeded.
Proof. intros. eapply str_over_capacity; eassumption. Qed.

(** only message 1029 carries the free-text field excluded above *)
Theorem C15_no_utf8_all_but_1029 : forallb (fun m => no_utf8 (snd m) || (fst m =? 1029)) messages = true.
Proof. vm_compute. reflexivity. Qed.

Example C15_example : mb layout_1057 + 12 = 8168 /\ In (60, 6) (counted layout_1057).
Proof. split; [vm_compute; reflexivity|]. vm_compute. tauto. Qed.

Print Assumptions C15_layouts_fit.
Print Assumptions C15_counts_fit.
Print Assumptions C15_size.
Print Assumptions C15_truncated.

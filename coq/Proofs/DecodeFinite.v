(** Every floating-point field of a decoded message is finite (the last clause of C02). *)
From Coq Require Import Reals ZArith List Lia Lra Bool QArith Qreals.
From Flocq Require Import Core BinarySingleNaN.
From RtcmModel Require Import Types BitIO Floats Field SigId Text Bias Msm Layout.
From RtcmProofs Require Import ListZ FragInd EncodeLen BitProofs DecodeBound DecodeTotal FloatProofs FloatBits FieldProofs.
Import ListNotations.
Open Scope Z_scope.

(** all floats inside a value are finite *)
Fixpoint vfin (v : val) : Prop :=
  match v with
  | VF32 b => is_finite (f32_of_bits b) = true
  | VF64 b => is_finite (f64_of_bits b) = true
  | VSome x => vfin x
  | VList l => (fix all (l : list val) : Prop := match l with [] => True | x :: r => vfin x /\ all r end) l
  | VStruct l => (fix all (l : list val) : Prop := match l with [] => True | x :: r => vfin x /\ all r end) l
  | _ => True
  end.
Lemma vfin_all l : (fix all (l : list val) : Prop := match l with [] => True | x :: r => vfin x /\ all r end) l <-> Forall vfin l.
Proof.
  induction l as [|x r IH]; [split; intros _; [constructor|exact I]|].
  split; intros H.
  - destruct H as [H1 H2]. constructor; [exact H1|apply IH; exact H2].
  - inversion H; subst. split; [assumption|apply IH; assumption].
Qed.
Lemma vfin_list l : vfin (VList l) <-> Forall vfin l. Proof. apply vfin_all. Qed.
Lemma vfin_struct l : vfin (VStruct l) <-> Forall vfin l. Proof. apply vfin_all. Qed.

Lemma val_finite_vfin v : val_finite v -> (forall l, v <> VList l) -> (forall l, v <> VStruct l) -> (forall x, v <> VSome x) -> vfin v.
Proof. destruct v; cbn; intros H H1 H2 H3; try exact I; try exact H; exfalso; [eapply H3|eapply H1|eapply H2]; reflexivity. Qed.

(** ---------- fields ---------- *)
Lemma decode_core_shape fs c v : decode_core fs c = Ok v -> (exists z, v = VInt z) \/ (exists b, v = VF32 b) \/ (exists b, v = VF64 b).
Proof.
  unfold decode_core. intros H. destruct (f_dt fs); crush H; inversion H; subst; eauto.
Qed.

Lemma decode_field_vfin fs data off v off' : field_rt_ok fs = true -> field_dec_ok fs = true ->
  bytes_ok data = true -> 0 <= off -> decode_field fs data off = Ok (v, off') -> vfin v.
Proof.
  intros Hrt Hok Hb Ho D.
  destruct (parse (f_ck fs) (f_cbits fs) data off (f_len fs)) as [[c o1]|e|] eqn:P.
  2,3: unfold decode_field in D; rewrite P in D; discriminate.
  destruct (field_roundtrip fs data off c o1 Hrt Hok Hb Ho P) as [v' [D' [Hm _]]].
  rewrite D in D'. inversion D'; subst v' o1.
  unfold decode_field in D. rewrite P in D. cbn [bind] in D.
  destruct (decode_core fs c) as [x|e|] eqn:Dc; cbn [bind] in D; try discriminate.
  pose proof (decode_core_shape fs c x Dc) as Sh.
  destruct (f_inv fs) as [i|].
  - destruct (c =? i) eqn:Ec; inversion D; subst v; [exact I|].
    apply Z.eqb_neq in Ec. destruct Hm as [_ Hm]. destruct (Hm Ec) as [x' [Ex Fx]]. inversion Ex; subst x'.
    cbn [vfin]. destruct Sh as [[z ->]|[[b ->]|[b ->]]]; cbn in *; try exact I; exact Fx.
  - inversion D; subst v. destruct Hm as [Fx _]. destruct Sh as [[z ->]|[[b ->]|[b ->]]]; cbn in *; try exact I; exact Fx.
Qed.

(** ---------- the hand-written bias dequantisers ---------- *)
Lemma dequant_finite (r : f32) v : is_finite r = true -> (0 <= Q2R (B2Q 24 128 r) <= 1)%R -> Z.abs v < 2 ^ 24 ->
  is_finite (f32_of_bits (bias_dequant r v)) = true.
Proof.
  intros Fr Hr Hv. unfold bias_dequant.
  destruct (ofZ_correct 24 128 Hp32 Hpe32 ltac:(lia) v Hv) as [Zv Zf].
  rewrite (Q2R_B2Q 24 128 r Fr) in Hr.
  destruct (fmul_ok 24 128 Hp32 Hpe32 ltac:(lia) (ofZ 24 128 Hp32 Hpe32 v) r Zf Fr) as [_ Mf].
  - rewrite Zv, Rabs_mult, (Rabs_pos_eq (B2R r)) by lra.
    apply Rle_trans with (Rabs (IZR v) * 1)%R; [apply Rmult_le_compat_l; [apply Rabs_pos|lra]|].
    rewrite Rmult_1_r, <- abs_IZR. apply Rle_trans with (IZR (2 ^ 24)); [apply IZR_le; lia|].
    apply (pow2_emax_bound 24 128 Hpe32). lia.
  - rewrite f32_of_to_bits by exact Mf. exact Mf.
Qed.

Lemma r001_ok : is_finite f32_0_01 = true /\ (0 <= Q2R (B2Q 24 128 f32_0_01) <= 1)%R.
Proof.
  split; [vm_compute; reflexivity|].
  assert (H : Qle_bool 0 (B2Q 24 128 f32_0_01) && Qle_bool (B2Q 24 128 f32_0_01) 1 = true) by (vm_compute; reflexivity).
  apply andb_true_iff in H. destruct H as [H1 H2]. apply Qle_bool_R in H1, H2.
  replace (Q2R 0) with 0%R in H1 by (unfold Q2R; cbn; lra). replace (Q2R 1) with 1%R in H2 by (unfold Q2R; cbn; lra). lra.
Qed.
Lemma r002_ok : is_finite f32_0_02 = true /\ (0 <= Q2R (B2Q 24 128 f32_0_02) <= 1)%R.
Proof.
  split; [vm_compute; reflexivity|].
  assert (H : Qle_bool 0 (B2Q 24 128 f32_0_02) && Qle_bool (B2Q 24 128 f32_0_02) 1 = true) by (vm_compute; reflexivity).
  apply andb_true_iff in H. destruct H as [H1 H2]. apply Qle_bool_R in H1, H2.
  replace (Q2R 0) with 0%R in H1 by (unfold Q2R; cbn; lra). replace (Q2R 1) with 1%R in H2 by (unfold Q2R; cbn; lra). lra.
Qed.

Lemma ki16_small data off len b off' : 1 <= len <= 16 -> bytes_ok data = true -> 0 <= off ->
  parse KI 16 data off len = Ok (b, off') -> Z.abs b < 2 ^ 24.
Proof.
  intros Hl Hb Ho P. destruct (parse_range KI 16 data off len b off' ltac:(lia) ltac:(lia) Ho Hb P) as [Hr _]. cbn [representable] in Hr.
  assert (2 ^ (len - 1) <= 2 ^ 15) by (apply Z.pow_le_mono_r; lia). lia.
Qed.

Definition entry_fin (e : bias_entry) : Prop := is_finite (f32_of_bits (be_bias e)) = true.

Lemma cb_dec_entries_fin table cap data : bytes_ok data = true -> forall n sat off acc es off', 0 <= off ->
  Forall entry_fin acc -> cb_dec_entries table cap n sat data off acc = Ok (es, off') -> Forall entry_fin es.
Proof.
  intros Hb. induction n as [|n IH]; intros sat off acc es off' Ho Ha H; cbn [cb_dec_entries] in H; [inversion H; subst; exact Ha|].
  destruct (parse KU 8 data off 5) as [[id o1]|e|] eqn:P1; cbn [bind] in H; try discriminate.
  apply parse_off in P1. destruct P1 as [-> _].
  destruct (to_sig table id) as [sg|].
  - destruct (parse KI 16 data (off + 5) 14) as [[b o2]|e|] eqn:P2; cbn [bind] in H; try discriminate.
    pose proof (ki16_small data (off + 5) 14 b o2 ltac:(lia) Hb ltac:(lia) P2) as Hs.
    apply parse_off in P2. destruct P2 as [-> _].
    destruct (cap <=? zlen acc); [discriminate|].
    eapply IH; [|..|exact H]; [lia|].
    apply Forall_app. split; [exact Ha|]. constructor; [|constructor].
    unfold entry_fin. cbn [be_bias]. destruct r001_ok as [F R]. apply dequant_finite; assumption.
  - eapply IH; [| |exact H]; [lia|exact Ha].
Qed.

Lemma cb_dec_sats_fin table sat_bits cap data : bytes_ok data = true -> 0 <= sat_bits -> forall n off acc es off', 0 <= off ->
  Forall entry_fin acc -> cb_dec_sats table sat_bits cap n data off acc = Ok (es, off') -> Forall entry_fin es.
Proof.
  intros Hb Hs. induction n as [|n IH]; intros off acc es off' Ho Ha H; cbn [cb_dec_sats] in H; [inversion H; subst; exact Ha|].
  destruct (parse KU 8 data off sat_bits) as [[sat o1]|e|] eqn:P1; cbn [bind] in H; try discriminate.
  apply parse_off in P1. destruct P1 as [-> _].
  destruct (parse KU 8 data (off + sat_bits) 5) as [[bn o2]|e|] eqn:P2; cbn [bind] in H; try discriminate.
  apply parse_off in P2. destruct P2 as [-> _].
  destruct (cb_dec_entries table cap (Z.to_nat bn) sat data (off + sat_bits + 5) acc) as [[acc' o3]|e|] eqn:E; cbn [bind] in H; try discriminate.
  pose proof (cb_dec_entries_fin table cap data Hb (Z.to_nat bn) sat (off + sat_bits + 5) acc acc' o3 ltac:(lia) Ha E) as Ha'.
  apply cb_dec_entries_mono in E. eapply IH; [| |exact H]; [lia|exact Ha'].
Qed.

Lemma cb_decode_vfin table sat_bits cap data off v off' : bytes_ok data = true -> 0 <= sat_bits -> 0 <= off ->
  cb_decode table sat_bits cap data off = Ok (v, off') -> vfin v.
Proof.
  intros Hb Hs Ho H. unfold cb_decode in H.
  destruct (parse KU 8 data off 6) as [[sn o1]|e|] eqn:P1; cbn [bind] in H; try discriminate.
  apply parse_off in P1. destruct P1 as [-> _].
  destruct (cb_dec_sats table sat_bits cap (Z.to_nat sn) data (off + 6) []) as [[es o2]|e|] eqn:E; cbn [bind] in H; try discriminate.
  pose proof (cb_dec_sats_fin table sat_bits cap data Hb Hs (Z.to_nat sn) (off + 6) [] es o2 ltac:(lia) (Forall_nil _) E) as Hf.
  inversion H; subst. apply vfin_list.
  apply Forall_forall. intros x Hx. apply in_map_iff in Hx. destruct Hx as [e [<- He]].
  rewrite Forall_forall in Hf. specialize (Hf e He). unfold val_of_entry. apply vfin_struct.
  constructor; [exact I|]. constructor; [exact I|]. constructor; [exact Hf|constructor].
Qed.

Lemma b1230_dec_vfin data : bytes_ok data = true -> forall n i mask off acc l off', 0 <= off ->
  Forall vfin acc -> b1230_dec n i mask data off acc = Ok (l, off') -> Forall vfin l.
Proof.
  intros Hb. induction n as [|n IH]; intros i mask off acc l off' Ho Ha H; cbn [b1230_dec] in H.
  - inversion H; subst. apply Forall_rev. exact Ha.
  - destruct (Z.testbit mask (3 - i)).
    + destruct (parse KI 16 data off 16) as [[b o1]|e|] eqn:P; cbn [bind] in H; try discriminate.
      pose proof (ki16_small data off 16 b o1 ltac:(lia) Hb Ho P) as Hs.
      apply parse_off in P. destruct P as [-> _].
      eapply IH; [| |exact H]; [lia|]. constructor; [|exact Ha].
      apply vfin_struct. constructor; [exact I|]. constructor; [|constructor].
      cbn [vfin]. destruct r002_ok as [F R]. apply dequant_finite; assumption.
    + eapply IH; [| |exact H]; assumption.
Qed.

Lemma b1230_decode_vfin data off v off' : bytes_ok data = true -> 0 <= off -> b1230_decode data off = Ok (v, off') -> vfin v.
Proof.
  intros Hb Ho H. unfold b1230_decode in H.
  destruct (parse KU 8 data off 4) as [[mask o1]|e|] eqn:P; cbn [bind] in H; try discriminate.
  apply parse_off in P. destruct P as [-> _].
  destruct (b1230_dec 4 0 mask data (off + 4) []) as [[l o2]|e|] eqn:E; cbn [bind] in H; try discriminate.
  inversion H; subst. apply vfin_list. eapply b1230_dec_vfin; [exact Hb| | |exact E]; [lia|constructor].
Qed.

(** ---------- MSM ---------- *)
Definition fok (fs : field_spec) : bool := field_rt_ok fs && field_dec_ok fs.

Lemma dec_column_vfin fs data : fok fs = true -> bytes_ok data = true -> forall n off col off', 0 <= off ->
  dec_column fs n data off = Ok (col, off') -> Forall vfin col.
Proof.
  intros Hf Hb. unfold fok in Hf. apply andb_true_iff in Hf. destruct Hf as [Hrt Hok].
  induction n as [|n IH]; intros off col off' Ho H; cbn [dec_column] in H; [inversion H; constructor|].
  destruct (decode_field fs data off) as [[x o1]|e|] eqn:E; cbn [bind] in H; try discriminate.
  destruct (dec_column fs n data o1) as [[r o2]|e|] eqn:E2; cbn [bind] in H; try discriminate. inversion H; subst.
  pose proof (decode_field_off _ _ _ _ _ E) as ->. destruct (field_dec_ok_widths fs Hok) as [_ W].
  constructor; [eapply decode_field_vfin; eassumption|]. eapply (IH (off + f_len fs)); [lia|exact E2].
Qed.

Lemma snoc_each_fin : forall rows col, Forall (Forall vfin) rows -> Forall vfin col -> Forall (Forall vfin) (snoc_each rows col).
Proof.
  induction rows as [|r rs IH]; intros col Hr Hc; cbn [snoc_each]; [constructor|].
  destruct col as [|c cs]; [constructor|]. inversion Hr; subst. inversion Hc; subst.
  constructor; [apply Forall_app; split; [assumption|constructor; [assumption|constructor]]|apply IH; assumption].
Qed.

Lemma dec_columns_vfin data n : bytes_ok data = true -> forall specs, forallb fok specs = true ->
  forall off rows rows' off', 0 <= off -> Forall (Forall vfin) rows ->
    dec_columns specs n data off rows = Ok (rows', off') -> Forall (Forall vfin) rows'.
Proof.
  intros Hb. induction specs as [|fs r IH]; intros Hf off rows rows' off' Ho Hr H; cbn [dec_columns] in H; [inversion H; subst; exact Hr|].
  cbn [forallb] in Hf. apply andb_true_iff in Hf. destruct Hf as [Hf1 Hf2].
  destruct (dec_column fs n data off) as [[col o1]|e|] eqn:E; cbn [bind] in H; try discriminate.
  pose proof (dec_column_vfin fs data Hf1 Hb n off col o1 Ho E) as Hc.
  assert (Hok : field_dec_ok fs = true) by (unfold fok in Hf1; apply andb_true_iff in Hf1; tauto).
  destruct (field_dec_ok_widths fs Hok) as [_ W]. apply dec_column_off in E; [|lia].
  eapply (IH Hf2 o1); [lia| |exact H]. apply snoc_each_fin; assumption.
Qed.

Lemma map_struct_fin rows : Forall (Forall vfin) rows -> Forall vfin (map VStruct rows).
Proof. intros H. induction H as [|r rs Hr _ IH]; cbn [map]; constructor; [apply vfin_struct; exact Hr|exact IH]. Qed.

Lemma dec_sat_rows_vfin a sv data off sats off' : forallb fok a = true -> bytes_ok data = true -> 0 <= off ->
  dec_sat_rows a sv data off = Ok (sats, off') -> Forall vfin sats /\ off <= off'.
Proof.
  intros Ha Hb Ho E4.
  assert (Fa : forallb field_dec_ok a = true).
  { rewrite forallb_forall in *. intros x Hx. specialize (Ha x Hx). unfold fok in Ha. apply andb_true_iff in Ha. tauto. }
  unfold dec_sat_rows in E4. destruct (64 <? zlen sv); [discriminate|].
  destruct (dec_columns a (length sv) data off (map (fun s => [VInt s]) sv)) as [[rows o4']|e|] eqn:C4; cbn [bind] in E4; try discriminate.
  inversion E4; subst.
  split; [|exact (dec_columns_off data (length sv) a Fa _ _ _ _ C4)].
  apply map_struct_fin. apply (dec_columns_vfin data (length sv) Hb a Ha off (map (fun s => [VInt s]) sv) rows off' Ho); [|exact C4].
  apply Forall_forall. intros r Hr. apply in_map_iff in Hr. destruct Hr as [s [<- _]]. constructor; [exact I|constructor].
Qed.

Lemma cells_to_rows_fin tbl : forall cv rows0, cells_to_rows tbl cv = Ok rows0 -> Forall (Forall vfin) rows0.
Proof.
  induction cv as [|[s g] r IH]; intros rows0 C0; cbn [cells_to_rows] in C0; [inversion C0; constructor|].
  destruct (to_sig tbl g) as [[b0 c0]|]; [|discriminate].
  destruct (cells_to_rows tbl r) as [rs|e|]; cbn [bind] in C0; try discriminate. inversion C0; subst.
  constructor; [|apply IH; reflexivity]. constructor; [exact I|]. constructor; [exact I|constructor].
Qed.

Lemma dec_sig_rows_vfin tbl b cv data off sigs off' : forallb fok b = true -> bytes_ok data = true -> 0 <= off ->
  dec_sig_rows tbl b cv data off = Ok (sigs, off') -> Forall vfin sigs.
Proof.
  intros Hbk Hb Ho E5.
  unfold dec_sig_rows in E5. destruct (64 <? zlen cv); [discriminate|].
  destruct (cells_to_rows tbl cv) as [rows0|e|] eqn:C0; cbn [bind] in E5; try discriminate.
  destruct (dec_columns b (length cv) data off rows0) as [[rows2 o5']|e|] eqn:C5; cbn [bind] in E5; try discriminate. inversion E5; subst.
  apply map_struct_fin. apply (dec_columns_vfin data (length cv) Hb b Hbk off rows0 rows2 off' Ho); [|exact C5].
  eapply cells_to_rows_fin. exact C0.
Qed.

Lemma msm_decode_vfin tbl a b data off v off' : forallb fok a = true -> forallb fok b = true ->
  bytes_ok data = true -> 0 <= off -> msm_decode tbl a b data off = Ok (v, off') -> vfin v.
Proof.
  intros Ha Hbk Hb Ho. unfold msm_decode. intros H.
  crush H; try (inversion H; subst; apply vfin_struct; constructor; [exact I|]; constructor; [exact I|constructor]).
  inversion H; subst.
  repeat match goal with P : parse _ _ _ _ _ = Ok (_, _) |- _ => apply parse_off in P; destruct P as [? _] end.
  match goal with E : dec_sat_rows _ _ _ ?o = Ok _ |- _ =>
    assert (Hoo : 0 <= o) by (pose proof (mask_len_nonneg_dec 64 z) as M1; pose proof (mask_len_nonneg_dec 32 z1) as M2;
                               pose proof (Z.mul_nonneg_nonneg _ _ M1 M2); lia);
    destruct (dec_sat_rows_vfin _ _ _ _ _ _ Ha Hb Hoo E) as [F4 M4] end.
  match goal with E : dec_sig_rows _ _ _ _ ?o = Ok _ |- _ =>
    assert (Hoo2 : 0 <= o) by lia; pose proof (dec_sig_rows_vfin _ _ _ _ _ _ _ Hbk Hb Hoo2 E) as F5 end.
  apply vfin_struct. constructor; [apply vfin_list; exact F4|]. constructor; [apply vfin_list; exact F5|constructor].
Qed.

(** ---------- layouts ---------- *)
Section FragFin.
  Variable sigt : gnss -> sigtable.
  Variable ssr59 ssr65 : sigtable.
  Variable cap59 cap65 : Z.
  Notation dec := (decode_frag sigt ssr59 ssr65 cap59 cap65).

  Fixpoint fin_ok (f : frag) : bool :=
    match f with
    | FField fs => fok fs
    | FStruct l => (fix all (l : list frag) : bool := match l with [] => true | x :: r => fin_ok x && all r end) l
    | FLenMid f1 lenf f2 elem _ =>
        (fix all (l : list frag) : bool := match l with [] => true | x :: r => fin_ok x && all r end) f1
        && fok lenf
        && (fix all (l : list frag) : bool := match l with [] => true | x :: r => fin_ok x && all r end) f2
        && fin_ok elem
    | FVecLen elem _ _ => fin_ok elem
    | FGrid16 elem => fin_ok elem
    | FMsm _ a b => forallb fok a && forallb fok b
    | _ => true
    end.
  Lemma all_fin_ok_eq l : (fix all (l : list frag) : bool := match l with [] => true | x :: r => fin_ok x && all r end) l = forallb fin_ok l.
  Proof. induction l as [|x r IH]; [reflexivity|]. cbn [forallb]. f_equal; exact IH. Qed.

  Definition vfin_at (f : frag) : Prop :=
    fin_ok f = true -> frag_dec_ok f = true -> forall data off v off', bytes_ok data = true -> 0 <= off ->
      dec f data off = Ok (v, off') -> vfin v.

  Notation go_dec := (fun data => fix go (fl : list frag) (off : Z) {struct fl} : outcome (list val * Z) :=
         match fl with
         | [] => Ok ([], off)
         | f' :: fl' => '(x, off1) <- dec f' data off ;; '(r, off2) <- go fl' off1 ;; Ok (x :: r, off2)
         end).
  Notation el_dec := (fun elem data => fix elems (n : nat) (off : Z) {struct n} : outcome (list val * Z) :=
         match n with
         | O => Ok ([], off)
         | S n' => '(x, o1) <- dec elem data off ;; '(r, o2) <- elems n' o1 ;; Ok (x :: r, o2)
         end).

  Lemma mono_of f : frag_dec_ok f = true -> forall data off v off', bytes_ok data = true -> 0 <= off -> dec f data off = Ok (v, off') -> off <= off'.
  Proof. intros Hd data off v off' Hb Ho. exact (proj2 (decode_frag_total sigt ssr59 ssr65 cap59 cap65 f Hd data off Hb Ho) v off'). Qed.

  Lemma list_vfin : forall fl, Forall vfin_at fl -> forallb fin_ok fl = true -> forallb frag_dec_ok fl = true ->
    forall data off vs off', bytes_ok data = true -> 0 <= off -> go_dec data fl off = Ok (vs, off') -> Forall vfin vs /\ off <= off'.
  Proof.
    induction 1 as [|f fl Hf _ IH]; intros Hp Hd data off vs off' Hb Ho H.
    - inversion H; subst. split; [constructor|lia].
    - cbn [forallb] in Hp, Hd. apply andb_true_iff in Hp, Hd. destruct Hp as [Hp1 Hp2]. destruct Hd as [Hd1 Hd2].
      destruct (dec f data off) as [[x o1]|e|] eqn:E1; cbn [bind] in H; try discriminate.
      destruct (go_dec data fl o1) as [[r o2]|e|] eqn:E2; cbn [bind] in H; try discriminate. inversion H; subst.
      pose proof (mono_of f Hd1 data off x o1 Hb Ho E1) as M1.
      destruct (IH Hp2 Hd2 data o1 r off' Hb ltac:(lia) E2) as [Fr M2].
      split; [constructor; [eapply Hf; eassumption|exact Fr]|lia].
  Qed.

  Lemma elems_vfin elem : vfin_at elem -> fin_ok elem = true -> frag_dec_ok elem = true ->
    forall data, bytes_ok data = true -> forall n off l off', 0 <= off -> el_dec elem data n off = Ok (l, off') -> Forall vfin l.
  Proof.
    intros He Hp Hd data Hb. induction n as [|n IH]; intros off l off' Ho H; [inversion H; constructor|].
    destruct (dec elem data off) as [[x o1]|e|] eqn:E1; cbn [bind] in H; try discriminate.
    destruct (el_dec elem data n o1) as [[r o2]|e|] eqn:E2; cbn [bind] in H; try discriminate. inversion H; subst.
    pose proof (mono_of elem Hd data off x o1 Hb Ho E1) as M1.
    constructor; [eapply He; eassumption|eapply (IH o1); [lia|exact E2]].
  Qed.

  Theorem decode_frag_vfin : forall f, vfin_at f.
  Proof.
    apply frag_ind'; unfold vfin_at; cbn [fin_ok frag_dec_ok].
    - intros fs Hp Hd data off v off' Hb Ho H. cbn [decode_frag] in H. unfold fok in Hp. apply andb_true_iff in Hp. destruct Hp as [Hrt Hok].
      eapply decode_field_vfin; eassumption.
    - intros cap lb _ _ data off v off' Hb Ho H. cbn [decode_frag] in H. unfold decode_str in H. crush H. inversion H; subst. exact I.
    - intros _ _ data off v off' Hb Ho H. cbn [decode_frag] in H. unfold decode_utf8 in H. crush H. inversion H; subst. exact I.
    - intros _ _ data off v off' Hb Ho H. cbn [decode_frag] in H. eapply cb_decode_vfin; [exact Hb| |exact Ho|exact H]. lia.
    - intros _ _ data off v off' Hb Ho H. cbn [decode_frag] in H. eapply cb_decode_vfin; [exact Hb| |exact Ho|exact H]. lia.
    - intros _ _ data off v off' Hb Ho H. cbn [decode_frag] in H. eapply b1230_decode_vfin; eassumption.
    - intros l Hl Hp Hd data off v off' Hb Ho H. rewrite all_fin_ok_eq in Hp. rewrite all_dec_ok_eq in Hd. cbn [decode_frag] in H.
      destruct (go_dec data l off) as [[vs o1]|e|] eqn:E; cbn [bind] in H; try discriminate. inversion H; subst.
      apply vfin_struct. exact (proj1 (list_vfin l Hl Hp Hd data off vs off' Hb Ho E)).
    - intros f1 lenf f2 elem cap H1 H2 He Hp Hd data off v off' Hb Ho H.
      rewrite (all_fin_ok_eq f1), (all_fin_ok_eq f2) in Hp. rewrite (all_dec_ok_eq f1), (all_dec_ok_eq f2) in Hd.
      apply andb_true_iff in Hp. destruct Hp as [Hp Pe]. apply andb_true_iff in Hp. destruct Hp as [Hp P2]. apply andb_true_iff in Hp. destruct Hp as [P1 Pl].
      apply andb_true_iff in Hd. destruct Hd as [Hd De]. apply andb_true_iff in Hd. destruct Hd as [Hd D2]. apply andb_true_iff in Hd. destruct Hd as [D1 Dl].
      apply andb_true_iff in Dl. destruct Dl as [Dl1 Dl2].
      cbn [decode_frag] in H.
      destruct (go_dec data f1 off) as [[vs1 o1]|e|] eqn:E1; cbn [bind] in H; try discriminate.
      destruct (decode_field lenf data o1) as [[lenv o2]|e|] eqn:El; cbn [bind] in H; try discriminate.
      destruct lenv as [n| | | | | | | |]; try discriminate.
      destruct (go_dec data f2 o2) as [[vs2 o3]|e|] eqn:E2; cbn [bind] in H; try discriminate.
      destruct (cap <? n); [discriminate|].
      destruct (el_dec elem data (Z.to_nat n) o3) as [[l o4]|e|] eqn:E3; cbn [bind] in H; try discriminate. inversion H; subst.
      destruct (list_vfin f1 H1 P1 D1 data off vs1 o1 Hb Ho E1) as [F1 M1].
      pose proof (decode_field_off _ _ _ _ _ El) as ->. destruct (field_dec_ok_widths lenf Dl1) as [_ Wl].
      destruct (list_vfin f2 H2 P2 D2 data (o1 + f_len lenf) vs2 o3 Hb ltac:(lia) E2) as [F2 M2].
      pose proof (elems_vfin elem He Pe De data Hb _ o3 l off' ltac:(lia) E3) as F3.
      apply vfin_struct. apply Forall_app. split; [exact F1|]. apply Forall_app. split; [exact F2|].
      constructor; [apply vfin_list; exact F3|constructor].
    - intros elem cap lb He Hp Hd data off v off' Hb Ho H.
      apply andb_true_iff in Hd. destruct Hd as [Hd De]. apply andb_true_iff in Hd. destruct Hd as [L1 L2]. apply Z.leb_le in L1, L2.
      cbn [decode_frag] in H.
      destruct (parse KU 16 data off lb) as [[len o1]|e|] eqn:P; cbn [bind] in H; try discriminate.
      destruct (cap <? len); [discriminate|].
      destruct (el_dec elem data (Z.to_nat len) o1) as [[l o2]|e|] eqn:E3; cbn [bind] in H; try discriminate. inversion H; subst.
      apply parse_off in P. destruct P as [-> _].
      apply vfin_list. eapply (elems_vfin elem He Hp De data Hb _ (off + lb)); [lia|exact E3].
    - intros elem He Hp Hd data off v off' Hb Ho H.
      change (dec (FGrid16 elem) data off) with ('(l, off1) <- el_dec elem data 16%nat off ;; Ok (VList l, off1)) in H.
      remember 16%nat as n16 eqn:Hn16. clear Hn16.
      destruct (el_dec elem data n16 off) as [[l o2]|e|] eqn:E3; cbn [bind] in H; try discriminate. inversion H; subst.
      apply vfin_list. eapply (elems_vfin elem He Hp Hd data Hb n16 off); [exact Ho|exact E3].
    - intros g a b Hp _ data off v off' Hb Ho H. apply andb_true_iff in Hp. destruct Hp as [Ha Hbb].
      cbn [decode_frag] in H. exact (msm_decode_vfin _ a b data off v off' Ha Hbb Hb Ho H).
  Qed.
End FragFin.

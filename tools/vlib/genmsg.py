"""Message value generators driven by the layouts regenerated from /repo (build/tables.json).
Values are produced in the text grammar of the operation protocol.  Every random choice comes from
the rng handed in (one random.Random(VERIF_SEED) per check run)."""
import math, struct
from .common import f32_bits, f64_bits, bits_f32, bits_f64
from . import valtext as vt

INT_RANGE = {"u8": (0, 255), "u16": (0, 65535), "u32": (0, 2**32 - 1), "usize": (0, 2**64 - 1),
             "i8": (-128, 127), "i16": (-32768, 32767), "i32": (-2**31, 2**31 - 1)}


def num_value(n):
    """exact value of a res/bias constant of tables.json"""
    if n is None:
        return None
    if "int" in n:
        return n["int"]
    m, e = n["flt"]
    return m * (2.0 ** e)


class Gen:
    def __init__(self, tables, rng):
        self.t = tables
        self.rng = rng
        self.fields = {f["id"]: f for f in tables["fields"]}
        self.layouts = {}
        for l, m in zip(tables["layouts"], tables["messages"]):
            assert l["feature"] == m["feature"]
            self.layouts[m["number"]] = l["layout"]
        self.numbers = sorted(self.layouts)
        self.sig = {g: [(r[1], r[2], r[0]) for r in rows] for g, rows in tables["sig_tables"].items()}
        self.ssr = {k: [(r[1], r[2], r[0]) for r in rows] for k, rows in tables["ssr_tables"].items()}

    # ---------------- fields ----------------
    def pattern_range(self, fd):
        w = fd["len"]
        if fd["ck"] == "U":
            return 0, 2**w - 1
        if fd["ck"] == "I":
            return -(2**(w - 1)), 2**(w - 1) - 1
        return -(2**(w - 1) - 1), 2**(w - 1) - 1

    def rand_pattern(self, fd):
        lo, hi = self.pattern_range(fd)
        r = self.rng.random()
        if r < 0.15:
            return self.rng.choice([lo, hi, 0, lo + 1, hi - 1, 1, -1 if lo < 0 else 2])
        if r < 0.25 and fd["inv"] is not None:
            return fd["inv"] + self.rng.choice([-1, 0, 1])
        return self.rng.randint(lo, hi)

    def float_of_pattern(self, fd, p):
        res = num_value(fd["res"])
        bias = num_value(fd["bias"])
        if fd["dt"] == "f32":
            x = bits_f32(f32_bits(float(p)))
            if res is not None:
                x = bits_f32(f32_bits(x * res))
            if bias is not None:
                x = bits_f32(f32_bits(x + bias))
            return x
        x = float(p)
        if res is not None:
            x = x * res
        if bias is not None:
            x = x + bias
        return x

    def fbits(self, fd, x):
        if fd["dt"] == "f32":
            return ("f", f32_bits(x))
        return ("d", f64_bits(x))

    def gen_field(self, fid, mode):
        """mode: 'valid' (on or near the grid, in range), 'offgrid', 'hostile' (anything of the Rust type)"""
        fd = self.fields[fid]
        rng = self.rng
        dt = fd["dt"]
        opt = fd["inv"] is not None
        if opt and rng.random() < (0.15 if mode != "hostile" else 0.3):
            return ("N",)
        if dt in ("f32", "f64"):
            if mode == "hostile" and rng.random() < 0.6:
                sp = rng.choice(["nan", "inf", "-inf", "-0", "0", "huge", "-huge", "tiny", "bits", "edge"])
                if sp == "nan":
                    v = ("f", 0x7FC00000) if dt == "f32" else ("d", 0x7FF8000000000000)
                elif sp == "inf":
                    v = ("f", 0x7F800000) if dt == "f32" else ("d", 0x7FF0000000000000)
                elif sp == "-inf":
                    v = ("f", 0xFF800000) if dt == "f32" else ("d", 0xFFF0000000000000)
                elif sp == "-0":
                    v = ("f", 0x80000000) if dt == "f32" else ("d", 0x8000000000000000)
                elif sp == "0":
                    v = ("f", 0) if dt == "f32" else ("d", 0)
                elif sp == "huge":
                    v = self.fbits(fd, 1e30 if dt == "f32" else 1e300)
                elif sp == "-huge":
                    v = self.fbits(fd, -1e30 if dt == "f32" else -1e300)
                elif sp == "tiny":
                    v = ("f", rng.randint(1, 100)) if dt == "f32" else ("d", rng.randint(1, 100))
                elif sp == "bits":
                    v = ("f", rng.getrandbits(32)) if dt == "f32" else ("d", rng.getrandbits(64))
                else:
                    # just outside the encodable range
                    lo, hi = self.pattern_range(fd)
                    p = rng.choice([lo - 1, hi + 1, lo - 2, hi + 2, 2 * hi + 1, 2 * lo - 1, 2**(fd["cbits"] - 1), 2**fd["cbits"], -(2**(fd["cbits"] - 1)) - 1])
                    v = self.fbits(fd, self.float_of_pattern(fd, p))
            else:
                p = self.rand_pattern(fd)
                x = self.float_of_pattern(fd, p)
                if mode != "valid" or rng.random() < 0.3:
                    res = num_value(fd["res"]) or 1.0
                    k = rng.random()
                    if k < 0.4:
                        x = x + res * (rng.random() - 0.5)
                    elif k < 0.7:
                        # just either side of the half step
                        x = x + res * rng.choice([0.5, -0.5]) * (1 + rng.choice([-1, 1]) * 2.0 ** -rng.randint(10, 30))
                    else:
                        x = x + res * rng.choice([0.4999, -0.4999, 0.25, -0.25, 0.5, -0.5])
                v = self.fbits(fd, x)
            return ("S", v) if opt else v
        lo, hi = INT_RANGE[dt]
        if mode == "hostile" and rng.random() < 0.5:
            x = rng.choice([lo, hi, 0, lo + 1, hi - 1, rng.randint(lo, hi)])
        else:
            p = self.rand_pattern(fd)
            res = num_value(fd["res"]) or 1
            bias = num_value(fd["bias"]) or 0
            x = p * res + bias
            if x < lo or x > hi:
                x = rng.randint(lo, hi)
        x = int(x)
        return ("S", ("i", x)) if opt else ("i", x)

    # ---------------- strings ----------------
    def gen_cps(self, n, kind):
        rng = self.rng
        out = []
        for _ in range(n):
            k = kind if kind != "mixed" else rng.choice(["ascii", "latin", "bmp", "astral", "nul", "two", "alias"])
            if k == "ascii":
                out.append(rng.randint(32, 126))
            elif k == "latin":
                out.append(rng.randint(128, 255))
            elif k == "nul":
                out.append(rng.choice([0, 164, 1, 255, 256]))
            elif k == "two":
                out.append(rng.randint(128, 2047))
            elif k == "alias":
                # characters whose low 8 / 16 bits look like a Latin-1 code
                out.append(rng.choice([0x100, 0x200, 0x1000, 0x10000, 0x20000, 0x100000, 0x10100]) + rng.randint(0, 255))
            elif k == "bmp":
                c = rng.randint(2048, 65535)
                out.append(c if not (0xD800 <= c <= 0xDFFF) else 0x20AC)
            else:
                out.append(rng.randint(65536, 0x10FFFF))
        return out

    def gen_str(self, cap, mode):
        rng = self.rng
        n = rng.choice([0, 1, cap - 1, cap, cap, rng.randint(0, cap)]) if mode != "hostile" else rng.choice([cap, cap + 1, cap + 5, rng.randint(0, cap + 3)])
        kind = rng.choice(["ascii", "ascii", "latin", "mixed"]) if mode != "hostile" else "mixed"
        return ("C", self.gen_cps(n, kind))

    def gen_utf8(self, mode):
        rng = self.rng
        if mode == "hostile":
            n = rng.choice([126, 127, 128, 130, 200, 255, 256, 300, rng.randint(0, 140)])
            kind = rng.choice(["ascii", "two", "bmp", "astral", "mixed"])
        else:
            n = rng.choice([0, 1, 30, 63, 64, 85, 127, rng.randint(0, 127)])
            kind = rng.choice(["ascii", "ascii", "two", "bmp", "astral", "mixed"])
        return ("C", self.gen_cps(n, kind))

    # ---------------- bias lists ----------------
    def gen_bias_entry_val(self, mode):
        rng = self.rng
        if mode == "hostile" and rng.random() < 0.3:
            return ("f", rng.choice([0x7FC00000, 0x7F800000, 0xFF800000, 0x80000000, f32_bits(1e9), f32_bits(-1e9), rng.getrandbits(32)]))
        p = rng.randint(-8192, 8191)
        x = bits_f32(f32_bits(p * 0.01))
        if rng.random() < 0.3:
            x += 0.01 * (rng.random() - 0.5)
        return ("f", f32_bits(x))

    def gen_bias_list(self, which, mode):
        rng = self.rng
        table = self.ssr[which]
        max_sat = 63 if which == "1059" else 31
        shape = rng.random()
        entries = []
        if mode == "hostile":
            k = rng.random()
            if k < 0.25:
                # one satellite with many entries (count field boundary 31/32)
                s = rng.randint(0, max_sat)
                n = rng.choice([31, 32, 33, 40, 12])
                for i in range(n):
                    b, c, _ = table[i % len(table)]
                    entries.append((s, b, c))
            elif k < 0.45:
                # many satellites (64 for 1059), one entry each
                ns = rng.choice([max_sat + 1, max_sat, 33, 64])
                for s in range(ns):
                    b, c, _ = rng.choice(table)
                    entries.append((s if rng.random() < 0.9 else rng.randint(0, 255), b, c))
            elif k < 0.6:
                # near the list capacity
                n = rng.choice([389, 390, 380])
                per = rng.choice([6, 12, len(table)])
                s = 0
                while len(entries) < n and s <= max_sat:
                    for i in range(min(per, len(table))):
                        if len(entries) < n:
                            b, c, _ = table[i]
                            entries.append((s, b, c))
                    s += 1
            else:
                n = rng.randint(0, 40)
                for _ in range(n):
                    s = rng.choice([rng.randint(0, max_sat), rng.randint(0, 255)])
                    if rng.random() < 0.2:
                        b, c = rng.randint(0, 9), rng.choice([67, 80, 87, 88, 90, 233])
                    else:
                        b, c, _ = rng.choice(table)
                    entries.append((s, b, c))
        else:
            nsat = rng.choice([0, 1, 2, 3, 5, 8, rng.randint(0, min(20, max_sat + 1))])
            sats = rng.sample(range(max_sat + 1), nsat)
            for s in sats:
                sigs = rng.sample(table, rng.randint(1, len(table)))
                for b, c, _ in sigs:
                    entries.append((s, b, c))
            if shape < 0.5:
                rng.shuffle(entries)       # entries of one satellite scattered through the list
        entries = entries[:390]
        return ("L", [("T", [("i", s), ("G", b, c), self.gen_bias_entry_val(mode)]) for s, b, c in entries])

    def gen_bias_1230(self, mode):
        rng = self.rng
        sigs = [(1, 67), (1, 80), (2, 67), (2, 80)]
        if mode == "hostile" and rng.random() < 0.4:
            n = rng.randint(0, 4)
            chosen = [rng.choice(sigs + [(3, 67), (1, 88)]) for _ in range(n)]
        else:
            chosen = rng.sample(sigs, rng.randint(0, 4))
        out = []
        for b, c in chosen:
            p = rng.randint(-32768, 32767)
            x = bits_f32(f32_bits(p * 0.02))
            if rng.random() < 0.3:
                x += 0.02 * (rng.random() - 0.5)
            out.append(("T", [("G", b, c), ("f", f32_bits(x))]))
        return ("L", out)

    # ---------------- MSM ----------------
    def gen_msm(self, lay, mode, force=None):
        """force: None | one of the invalid classes"""
        rng = self.rng
        table = self.sig[lay["gnss"]]
        cls = force
        if cls is None and mode == "hostile":
            cls = rng.choice([None, "sat0", "sat65", "badsig", "dupsat", "dupcell", "mismatch_extra_sat", "mismatch_extra_cell", "toomany", "empty_sats", "empty_cells"])
        if rng.random() < 0.05 and cls is None:
            return ("T", [("L", []), ("L", [])])
        # admissible (S, G, C)
        # any number of signals the constellation defines (Galileo has 19): small sets most often, the whole table and
        # its neighbours regularly
        ng = rng.choice([rng.randint(1, min(len(table), 6)), rng.randint(1, min(len(table), 6)), rng.randint(1, len(table)), len(table), max(1, len(table) - 1), max(1, len(table) - 2)])
        ns = rng.randint(1, max(1, min(64 // ng, rng.choice([1, 2, 4, 8, 64]))))
        if cls == "toomany":
            ng = rng.randint(2, min(len(table), 13))
            ns = 64 // ng + rng.randint(1, 3)
            ns = min(ns, 64)
            if ns * ng <= 64:
                ns = min(64, 64 // ng + 1)
        shape = None
        if isinstance(force, tuple) and force and force[0] == "shape":
            # an admissible message with exactly force[1] satellites and force[2] signals (every cell present when they fit)
            shape = force
            cls = None
            ng = max(1, min(force[2], len(table)))
            ns = max(1, min(force[1], 64 // ng))
        S = sorted(rng.sample(range(1, 65), ns))
        G = rng.sample(table, ng)
        cells = set()
        if shape is not None:
            cells = {(s, g_) for s in S for g_ in G}
        for s in S:
            cells.add((s, rng.choice(G)))
        for g in G:
            cells.add((rng.choice(S), g))
        extra = rng.randint(0, ns * ng)
        for _ in range(extra):
            cells.add((rng.choice(S), rng.choice(G)))
        cells = list(cells)
        cells = cells[:64]
        # every S and G must still be used after the cut
        S = sorted({s for s, _ in cells})
        rng.shuffle(cells)
        sats = list(S)
        if rng.random() < 0.7:
            rng.shuffle(sats)
        if cls == "sat0":
            sats[rng.randrange(len(sats))] = 0
        elif cls == "sat65":
            if rng.random() < 0.5:
                sats[rng.randrange(len(sats))] = rng.choice([65, 66, 255, 128])
            else:
                i = rng.randrange(len(cells))
                cells[i] = (rng.choice([0, 65, 200]), cells[i][1])
        elif cls == "badsig":
            i = rng.randrange(len(cells))
            cells[i] = (cells[i][0], (rng.randint(0, 9), rng.choice([63, 97, 233, 0x1F600, 90]), -1))
        elif cls == "dupsat":
            if len(sats) < 64:
                sats.insert(rng.randrange(len(sats) + 1), rng.choice(sats))
        elif cls == "dupcell":
            if len(cells) < 64:
                cells.insert(rng.randrange(len(cells) + 1), rng.choice(cells))
        elif cls == "mismatch_extra_sat":
            free = [s for s in range(1, 65) if s not in S]
            if free and len(sats) < 64:
                sats.append(rng.choice(free))
        elif cls == "mismatch_extra_cell":
            free = [s for s in range(1, 65) if s not in S]
            if free and len(cells) < 64:
                cells.append((rng.choice(free), rng.choice(G)))
        elif cls == "empty_sats":
            sats = []
        elif cls == "empty_cells":
            cells = []
        fmode = "valid" if mode == "valid" else mode
        sat_rows = [("T", [("i", s)] + [self.gen_field(fid, fmode) for _, fid in lay["sat_rows"]]) for s in sats]
        sig_rows = [("T", [("i", s), ("G", g[0], g[1])] + [self.gen_field(fid, fmode) for _, fid in lay["sig_rows"]]) for s, g in cells]
        return ("T", [("L", sat_rows), ("L", sig_rows)])

    # ---------------- layouts ----------------
    def list_len(self, cap, mode, n=None):
        if n is not None:
            return n
        rng = self.rng
        return rng.choice([0, 1, 2, cap - 1, cap, rng.randint(0, cap), rng.randint(0, min(cap, 4))])

    def gen_frag(self, lay, mode, n=None, msm_force=None):
        k = lay["k"]
        if k == "field":
            return self.gen_field(lay["id"], mode)
        if k == "str":
            return self.gen_str(lay["cap"], mode)
        if k == "utf8":
            return self.gen_utf8(mode)
        if k == "bias1059":
            return self.gen_bias_list("1059", mode)
        if k == "bias1065":
            return self.gen_bias_list("1065", mode)
        if k == "bias1230":
            return self.gen_bias_1230(mode)
        if k == "struct":
            return ("T", [self.gen_frag(f, mode, n, msm_force) for _, f in lay["fields"]])
        if k == "lenmid":
            cnt = self.list_len(lay["cap"], mode, n)
            return ("T", [self.gen_frag(f, mode) for _, f in lay["fields1"]] + [self.gen_frag(f, mode) for _, f in lay["fields2"]]
                    + [("L", [self.gen_frag(lay["elem"], mode) for _ in range(cnt)])])
        if k == "veclen":
            cnt = self.list_len(lay["cap"], mode, n)
            return ("L", [self.gen_frag(lay["elem"], mode) for _ in range(cnt)])
        if k == "grid16":
            return ("L", [self.gen_frag(lay["elem"], mode) for _ in range(16)])
        if k == "msm":
            return self.gen_msm(lay, mode, msm_force)
        raise ValueError("unknown layout kind " + k)

    def gen_msg(self, number, mode="valid", n=None, msm_force=None):
        return "VMsg%d(%s)" % (number, vt.show(self.gen_frag(self.layouts[number], mode, n, msm_force)))

    # ---------------- structure queries ----------------
    def find_lists(self, lay, path=()):
        """(path, kind, cap, len_bits) of every count-prefixed list / string of a layout"""
        out = []
        k = lay["k"]
        if k == "struct":
            for i, (_, f) in enumerate(lay["fields"]):
                out += self.find_lists(f, path + (i,))
        elif k == "lenmid":
            out.append((path, "lenmid", lay["cap"], self.fields[lay["len_field"]]["len"]))
        elif k == "veclen":
            out.append((path, "veclen", lay["cap"], lay["len_bits"]))
            out += [(p, kk, c, lb) for p, kk, c, lb in self.find_lists(lay["elem"], path + ("elem",))]
        elif k == "str":
            out.append((path, "str", lay["cap"], lay["len_bits"]))
        return out

    def is_msm(self, number):
        return any(f["k"] == "msm" for _, f in self.layouts[number].get("fields", []))

    def msm_numbers(self):
        return [n for n in self.numbers if self.is_msm(n)]

    def bits_before(self, lay_fields, idx):
        """fixed bit width of the first idx fields of a struct (None if variable)"""
        total = 0
        for _, f in lay_fields[:idx]:
            if f["k"] != "field":
                return None
            total += self.fields[f["id"]]["len"]
        return total

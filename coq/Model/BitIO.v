(** Bit reader/writer: src/df/assembler.rs, src/df/parser.rs, src/df/bit_value.rs,
    transliterated statement by statement.  Semantics of a build with overflow checks:
    every usize underflow, over-wide shift and signed overflow is [Panic]. *)
From Coq Require Import ZArith List Bool.
From RtcmModel Require Import Types.
Import ListNotations.
Open Scope Z_scope.

Definition signed_kind (k : ckind) : bool := match k with KU => false | _ => true end.

(** wrap an integer into the carrier (k, bits): what an [as] cast or a discarding shift does *)
Definition wrapc (k : ckind) (bits v : Z) : Z :=
  let m := v mod 2 ^ bits in
  if signed_kind k && (2 ^ (bits - 1) <=? m) then m - 2 ^ bits else m.

Definition cmin (k : ckind) (bits : Z) : Z := if signed_kind k then - 2 ^ (bits - 1) else 0.
Definition cmax (k : ckind) (bits : Z) : Z := if signed_kind k then 2 ^ (bits - 1) - 1 else 2 ^ bits - 1.
Definition in_carrier (k : ckind) (bits v : Z) : bool := (cmin k bits <=? v) && (v <=? cmax k bits).

(** usize subtraction *)
Definition usub (a b : Z) : outcome Z := if b <=? a then Ok (a - b) else Panic.

(** [v << n] and [v >> n] on a carrier; the shift amount must be below the width *)
Definition shl (k : ckind) (bits v n : Z) : outcome Z :=
  if (0 <=? n) && (n <? bits) then Ok (wrapc k bits (v * 2 ^ n)) else Panic.
Definition shr (k : ckind) (bits v n : Z) : outcome Z :=
  if (0 <=? n) && (n <? bits) then Ok (Z.shiftr v n) else Panic.

(** BitValue::sign_fix, per kind (bit_value.rs) *)
Definition sign_fix (k : ckind) (bits val len : Z) : outcome Z :=
  match k with
  | KU => Ok val
  | KI =>
      lm1 <- usub len 1 ;;
      one <- shl k bits 1 lm1 ;;
      if (Z.land val one =? 0) || (len =? bits) then Ok val
      else (m <- shl k bits (-1) len ;; Ok (Z.lor val m))
  | KSM =>
      lm1 <- usub len 1 ;;
      one <- shl k bits 1 lm1 ;;
      if Z.land val one =? 0 then Ok val
      else (m <- shl k bits (-1) lm1 ;;
            let mag := Z.land val (Z.lnot m) in
            let r := -1 * mag in
            if in_carrier k bits r then Ok r else Panic)
  end.

(** BitValue::sign_fix_rev, per kind (bit_value.rs, after the sign-magnitude fix) *)
Definition sign_fix_rev (k : ckind) (bits val len : Z) : outcome Z :=
  match k with
  | KU | KI => Ok val
  | KSM =>
      lm1 <- usub len 1 ;;
      m <- shl k bits (-1) lm1 ;;
      let mag_mask := Z.lnot m in
      if 0 <=? val then Ok (Z.land val mag_mask)
      else
        let mag := Z.land (wrapc k bits (- val)) mag_mask in
        if mag =? 0 then Ok 0
        else (one <- shl k bits 1 lm1 ;; Ok (Z.lor mag one))
  end.

Definition val_cast (v : Z) : Z := v mod 256.                   (* as u8 *)
Definition u8_cast (k : ckind) (bits b : Z) : Z := wrapc k bits b.  (* u8 as ValueType *)

Fixpoint upd (l : list Z) (i : nat) (f : Z -> Z) : list Z :=
  match l, i with
  | [], _ => []
  | x :: r, O => f x :: r
  | x :: r, S i' => x :: upd r i' f
  end.

(** the byte masks *)
Definition mask_r (n : Z) : Z := Z.shiftr 255 n.               (* 255u8 >> n *)
Definition mask_l (n : Z) : Z := (255 * 2 ^ n) mod 256.        (* 255u8 << n *)

(** One iteration of the loop of [Assembler::put]; [i] is the enumerate index. *)
Definition put_step (k : ckind) (bits value lh_st rh_en dlen : Z) (i : Z) (d lenlft : Z)
  : outcome (Z * Z) :=
  let bset := 255 in let nbits := 8 in let bpos := 0 in
  '(bset, nbits) <- (if i =? 0 then (nb <- usub nbits lh_st ;; Ok (Z.land bset (mask_r lh_st), nb))
                     else Ok (bset, nbits)) ;;
  '(bset, nbits, bpos) <- (if i =? dlen - 1 then (nb <- usub nbits rh_en ;; Ok (Z.land bset (mask_l rh_en), nb, rh_en))
                           else Ok (bset, nbits, bpos)) ;;
  lenlft <- usub lenlft nbits ;;
  tval <- (if lenlft <=? bpos then shl k bits value (bpos - lenlft) else shr k bits value (lenlft - bpos)) ;;
  let bval := val_cast tval in
  let d1 := Z.land d (Z.lor (255 - bset) bval) in
  let d2 := Z.lor d1 (Z.land bset bval) in
  Ok (d2, lenlft).

Fixpoint put_loop (k : ckind) (bits value lh_st rh_en dlen : Z) (sti : nat) (n : nat) (i : Z)
         (data : list Z) (lenlft : Z) : outcome (list Z) :=
  match n with
  | O => Ok data
  | S n' =>
      match nth_error data (sti + Z.to_nat i) with
      | None => Ok data     (* iterator exhausted: skip/take stop silently *)
      | Some d =>
          '(d', lenlft') <- put_step k bits value lh_st rh_en dlen i d lenlft ;;
          put_loop k bits value lh_st rh_en dlen sti n' (i + 1)
                   (upd data (sti + Z.to_nat i) (fun _ => d')) lenlft'
      end
  end.

(** Assembler::put::<IT>(value, len) on (data, offset) *)
Definition put (k : ckind) (bits : Z) (data : list Z) (offset value len : Z)
  : outcome (list Z * Z) :=
  if zlen data * 8 <? offset + len then Err BufferOverflow
  else
    value <- sign_fix_rev k bits value len ;;
    let lh_st := offset mod 8 in
    let lh_en := (offset + len) mod 8 in
    let rh_en := (8 - lh_en) mod 8 in
    let sti := offset / 8 in
    e <- usub (offset + len) 1 ;;
    let dlen := e / 8 - sti + 1 in
    data' <- put_loop k bits value lh_st rh_en dlen (Z.to_nat sti) (Z.to_nat dlen) 0 data len ;;
    Ok (data', offset + len).

(** One iteration of the loop of [Parser::parse]. *)
Definition parse_step (k : ckind) (bits lh_st rh_en dlen : Z) (i : Z) (d lenlft val : Z)
  : outcome (Z * Z) :=
  let b := d in let nbits := 8 in let bpos := 0 in
  '(b, nbits) <- (if i =? 0 then (nb <- usub nbits lh_st ;; Ok (Z.land b (mask_r lh_st), nb))
                  else Ok (b, nbits)) ;;
  '(b, nbits, bpos) <- (if i =? dlen - 1 then (nb <- usub nbits rh_en ;; Ok (Z.land b (mask_l rh_en), nb, rh_en))
                        else Ok (b, nbits, bpos)) ;;
  lenlft <- usub lenlft nbits ;;
  let b := if lenlft <=? bpos then Z.shiftr b (bpos - lenlft) else b in
  let bval := u8_cast k bits b in
  piece <- (if lenlft <=? bpos then Ok bval else shl k bits bval (lenlft - bpos)) ;;
  Ok (Z.lor val piece, lenlft).

Fixpoint parse_loop (k : ckind) (bits lh_st rh_en dlen : Z) (sti : nat) (n : nat) (i : Z)
         (data : list Z) (lenlft val : Z) : outcome Z :=
  match n with
  | O => Ok val
  | S n' =>
      match nth_error data (sti + Z.to_nat i) with
      | None => Ok val
      | Some d =>
          '(val', lenlft') <- parse_step k bits lh_st rh_en dlen i d lenlft val ;;
          parse_loop k bits lh_st rh_en dlen sti n' (i + 1) data lenlft' val'
      end
  end.

(** Parser::parse::<IT>(len) on (data, offset): value and new offset *)
Definition parse (k : ckind) (bits : Z) (data : list Z) (offset len : Z) : outcome (Z * Z) :=
  if zlen data * 8 <? offset + len then Err BufferOverflow
  else
    let lh_st := offset mod 8 in
    let lh_en := (offset + len) mod 8 in
    let rh_en := (8 - lh_en) mod 8 in
    let sti := offset / 8 in
    e <- usub (offset + len) 1 ;;
    let dlen := e / 8 - sti + 1 in
    v <- parse_loop k bits lh_st rh_en dlen (Z.to_nat sti) (Z.to_nat dlen) 0 data len 0 ;;
    r <- sign_fix k bits v len ;;
    Ok (r, offset + len).

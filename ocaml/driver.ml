(* Model-side runner of the correspondence check: parses one operation per line, evaluates it with
   the model extracted from Coq (model.ml) and prints one canonical result line per operation,
   in exactly the format of harness/src/main.rs.  No model logic lives here: only parsing and
   printing.  Z / positive / nat stay the extracted inductive types. *)
exception Bad of string
open Model

(* ---------- int <-> z ---------- *)
let rec pos_of_int n = if n = 1 then XH else if n land 1 = 0 then XO (pos_of_int (n lsr 1)) else XI (pos_of_int (n lsr 1))
let z_of_int n = if n = 0 then Z0 else if n > 0 then Zpos (pos_of_int n) else Zneg (pos_of_int (-n))
let rec int_of_pos p = match p with XH -> 1 | XO q -> 2 * int_of_pos q | XI q -> 2 * int_of_pos q + 1
let int_of_z z = match z with Z0 -> 0 | Zpos p -> int_of_pos p | Zneg p -> - (int_of_pos p)
let rec nat_of_int n = if n = 0 then O else S (nat_of_int (n - 1))

let z10 = z_of_int 10
let z16 = z_of_int 16
(* decimal string (optional leading '-') -> z, arbitrary size *)
let z_of_dec s =
  let neg = String.length s > 0 && s.[0] = '-' in
  let start = if neg then 1 else 0 in
  let acc = ref Z0 in
  for i = start to String.length s - 1 do
    let d = Char.code s.[i] - 48 in
    if d < 0 || d > 9 then failwith ("bad decimal " ^ s);
    acc := Z.add (Z.mul !acc z10) (z_of_int d)
  done;
  if neg then Z.opp !acc else !acc
let z_of_hex s =
  let acc = ref Z0 in
  String.iter (fun c ->
    let d = match c with '0'..'9' -> Char.code c - 48 | 'a'..'f' -> Char.code c - 87 | 'A'..'F' -> Char.code c - 55
                       | _ -> failwith ("bad hex " ^ s) in
    acc := Z.add (Z.mul !acc z16) (z_of_int d)) s;
  !acc
let rec pos_bits p = match p with XH -> [1] | XO q -> 0 :: pos_bits q | XI q -> 1 :: pos_bits q   (* LSB first *)
(* non-negative z -> hex string, at least [width] digits *)
let z_to_hex width z =
  let bits = match z with Z0 -> [] | Zpos p -> pos_bits p | Zneg _ -> failwith "negative hex" in
  let rec nibbles l = match l with
    | [] -> []
    | a :: b :: c :: d :: r -> (a + 2*b + 4*c + 8*d) :: nibbles r
    | l -> let rec pad l = if List.length l < 4 then pad (l @ [0]) else l in nibbles (pad l) in
  let ns = List.rev (nibbles bits) in
  let s = String.concat "" (List.map (fun n -> String.make 1 "0123456789abcdef".[n]) ns) in
  let s = if String.length s < width then String.make (width - String.length s) '0' ^ s else s in
  if s = "" then "0" else s
let z_to_dec z =
  let rec go p acc =
    (* p >= 0 *)
    match p with
    | Z0 -> acc
    | _ -> let (q, r) = Z.div_eucl p z10 in go q (string_of_int (int_of_z r) ^ acc) in
  match z with
  | Z0 -> "0"
  | Zpos _ -> go z ""
  | Zneg p -> "-" ^ go (Zpos p) ""

(* ---------- bytes ---------- *)
let unhex s =
  if s = "-" then [] else
  List.init (String.length s / 2) (fun i -> z_of_int (int_of_string ("0x" ^ String.sub s (2*i) 2)))
let hex bs = String.concat "" (List.map (fun b -> Printf.sprintf "%02x" (int_of_z b)) bs)
let hex_or_dash bs = if bs = [] then "-" else hex bs

let coq_string s =
  let rec go i = if i >= String.length s then EmptyString else
    let c = Char.code s.[i] in
    let b k = (c lsr k) land 1 = 1 in
    String (Ascii (b 0, b 1, b 2, b 3, b 4, b 5, b 6, b 7), go (i + 1)) in
  go 0

let err_name e = match e with
  | NotValid -> "NotValid" | Incomplete -> "Incomplete" | BufferOverflow -> "BufferOverflow"
  | CapacityExceeded -> "CapacityExceeded" | EncodingNotSupported -> "EncodingNotSupported"
  | DuplicateSatellite -> "DuplicateSatellite" | InvalidSatelliteId -> "InvalidSatelliteId"
  | InvalidSignalId -> "InvalidSignalId" | SatelliteMismatch -> "SatelliteMismatch"
  | DuplicateSatelliteSignal -> "DuplicateSatelliteSignal"
  | InvalidSatelliteSignalCount -> "InvalidSatelliteSignalCount" | OutOfRange -> "OutOfRange"
  | InvalidUtf8String -> "InvalidUtf8String"

(* ---------- values: the grammar of harness/src/val.rs ---------- *)
let parse_val s : val0 * int =
  let n = String.length s in
  let rec at p : val0 * int =
    if p >= n then raise (Bad "eof");
    match s.[p] with
    | 'i' ->
        let q = ref (p + 1) in
        if !q < n && s.[!q] = '-' then incr q;
        while !q < n && s.[!q] >= '0' && s.[!q] <= '9' do incr q done;
        (VInt (z_of_dec (String.sub s (p + 1) (!q - p - 1))), !q)
    | 'f' -> (VF32 (z_of_hex (String.sub s (p + 1) 8)), p + 9)
    | 'd' -> (VF64 (z_of_hex (String.sub s (p + 1) 16)), p + 17)
    | 'N' -> (VNone, p + 1)
    | 'S' ->
        if p + 1 >= n || s.[p + 1] <> '(' then raise (Bad "S(");
        let (v, q) = at (p + 2) in
        if q >= n || s.[q] <> ')' then raise (Bad "S)");
        (VSome v, q + 1)
    | 'L' -> if p + 1 >= n || s.[p + 1] <> '[' then raise (Bad "L["); let (l, q) = lst (p + 2) ']' in (VList l, q)
    | 'T' -> if p + 1 >= n || s.[p + 1] <> '{' then raise (Bad "T{"); let (l, q) = lst (p + 2) '}' in (VStruct l, q)
    | 'C' ->
        let q = ref (p + 1) in
        let out = ref [] in
        let continue = ref true in
        while !continue && !q < n && s.[!q] >= '0' && s.[!q] <= '9' do
          let st = !q in
          while !q < n && s.[!q] >= '0' && s.[!q] <= '9' do incr q done;
          out := z_of_dec (String.sub s st (!q - st)) :: !out;
          if !q < n && s.[!q] = '.' then incr q else continue := false
        done;
        (VStr (List.rev !out), !q)
    | 'G' ->
        let q = ref (p + 1) in
        while !q < n && s.[!q] >= '0' && s.[!q] <= '9' do incr q done;
        let band = z_of_dec (String.sub s (p + 1) (!q - p - 1)) in
        if !q >= n || s.[!q] <> ':' then raise (Bad "G:");
        let st = !q + 1 in
        q := st;
        while !q < n && s.[!q] >= '0' && s.[!q] <= '9' do incr q done;
        (VSig (band, z_of_dec (String.sub s st (!q - st))), !q)
    | c -> raise (Bad (Printf.sprintf "unexpected %c at %d" c p))
  and lst p close : val0 list * int =
    if p < n && s.[p] = close then ([], p + 1) else begin
      let out = ref [] in
      let p = ref p in
      let fin = ref false in
      while not !fin do
        let (v, q) = at !p in
        out := v :: !out;
        if q >= n then raise (Bad "unterminated");
        if s.[q] = ',' then p := q + 1
        else if s.[q] = close then (p := q + 1; fin := true)
        else raise (Bad "list sep")
      done;
      (List.rev !out, !p)
    end in
  at 0

let rec show_val (v : val0) = match v with
  | VInt z -> "i" ^ z_to_dec z
  | VF32 b -> "f" ^ z_to_hex 8 b
  | VF64 b -> "d" ^ z_to_hex 16 b
  | VNone -> "N"
  | VSome x -> "S(" ^ show_val x ^ ")"
  | VList l -> "L[" ^ String.concat "," (List.map show_val l) ^ "]"
  | VStruct l -> "T{" ^ String.concat "," (List.map show_val l) ^ "}"
  | VStr cps -> "C" ^ String.concat "." (List.map z_to_dec cps)
  | VSig (b, c) -> "G" ^ z_to_dec b ^ ":" ^ z_to_dec c

(* messages: VEmpty | VCorrupt | VMsgNotSupported(T{iN}) | VMsg<number>(<val>) *)
let parse_msg s : message =
  if s = "VEmpty" then MEmpty
  else if s = "VCorrupt" then MCorrupt
  else if String.length s > 17 && String.sub s 0 17 = "VMsgNotSupported(" then begin
    match parse_val (String.sub s 17 (String.length s - 18)) with
    | (VStruct [VInt n], _) -> MUnsupp n
    | _ -> raise (Bad "MsgNotSupported payload")
  end
  else if String.length s > 4 && String.sub s 0 4 = "VMsg" then begin
    let p = String.index s '(' in
    let num = z_of_dec (String.sub s 4 (p - 4)) in
    let body = String.sub s (p + 1) (String.length s - p - 2) in
    let (v, q) = parse_val body in
    if q <> String.length body then raise (Bad "trailing input");
    MTyped (num, v)
  end
  else raise (Bad "message")

let show_msg (m : message) = match m with
  | MEmpty -> "VEmpty"
  | MCorrupt -> "VCorrupt"
  | MUnsupp n -> "VMsgNotSupported(T{i" ^ z_to_dec n ^ "})"
  | MTyped (n, v) -> "VMsg" ^ z_to_dec n ^ "(" ^ show_val v ^ ")"

let bool_s b = if b then "true" else "false"

(* ---------- operations ---------- *)
let op_frame args =
  match frame_new (unhex (List.nth args 0)) with
  | Ok f ->
      Printf.sprintf "OK %s %s %s %s %s %s" (z_to_dec (frame_len f)) (z_to_dec (data_len f)) (z_to_hex 6 f.fr_crc)
        (match f.fr_number with Some n -> z_to_dec n | None -> "-")
        (hex_or_dash f.fr_data) (hex f.fr_frame_data)
  | Err e -> "ERR " ^ err_name e
  | Panic -> "PANIC"

let op_scan args =
  match scan (unhex (List.nth args 0)) with
  | Ok (c, Some f) -> Printf.sprintf "%s %s:%s" (z_to_dec c) (z_to_dec (Z.sub c (frame_len f))) (z_to_dec (frame_len f))
  | Ok (c, None) -> z_to_dec c ^ " -"
  | Err e -> "ERR " ^ err_name e
  | Panic -> "PANIC"

let op_iter args =
  match iter_run (unhex (List.nth args 0)) with
  | Ok (c, l) ->
      let items = List.map (fun (off, f) -> z_to_dec off ^ ":" ^ z_to_dec (frame_len f)) l in
      Printf.sprintf "%s %s" (z_to_dec c) (if items = [] then "-" else String.concat "," items)
  | Err e -> "ERR " ^ err_name e
  | Panic -> "PANIC"

let rec take k l = if k = 0 then [] else match l with [] -> [] | x :: r -> x :: take (k - 1) r
let rec drop k l = if k = 0 then l else match l with [] -> [] | _ :: r -> drop (k - 1) r

let op_stream_line args =
  let d = ref (unhex (List.nth args 0)) in
  let ops = List.map (fun o ->
    if o = "c" then Call
    else if String.length o > 1 && o.[0] = 'a' then begin
      let k = int_of_string (String.sub o 1 (String.length o - 1)) in
      let chunk = take k !d in
      d := drop k !d;
      Append chunk
    end else raise (Bad "stream op")) (String.split_on_char ',' (List.nth args 1)) in
  match op_stream ops with
  | Ok st ->
      let items = List.map (fun (off, f) -> z_to_dec off ^ ":" ^ z_to_dec (frame_len f) ^ ":" ^ hex f.fr_frame_data) st.cs_delivered in
      Printf.sprintf "%s %s" (z_to_dec st.cs_consumed) (if items = [] then "-" else String.concat "," items)
  | Err e -> "ERR " ^ err_name e
  | Panic -> "PANIC"

let op_decode args =
  match frame_new (unhex (List.nth args 0)) with
  | Ok f -> begin
      match t_from_frame f with
      | Ok m -> Printf.sprintf "%s refl=%s" (show_msg m) (bool_s (msg_eqb m m))
      | Err e -> "MODELERR " ^ err_name e
      | Panic -> "PANIC"
    end
  | Err e -> "ERR " ^ err_name e
  | Panic -> "PANIC"

let show_build o = match o with
  | Ok bytes -> "OK " ^ hex bytes
  | Err e -> "ERR " ^ err_name e
  | Panic -> "PANIC"

let op_encode args = show_build (t_build_fresh (parse_msg (List.nth args 0)))

let op_buildseq_line args =
  let ms = List.map parse_msg args in
  String.concat " ; " (List.map show_build (op_buildseq builder_new ms))

let op_roundtrip_line args =
  match op_roundtrip (parse_msg (List.nth args 0)) with
  | Panic -> "PANIC"
  | Err e -> "MODELERR " ^ err_name e
  | Ok r -> begin match r with
    | RT_err e -> "ERR " ^ err_name e
    | RT_frameerr1 (e1, e) -> Printf.sprintf "OK %s FRAMEERR %s" (hex e1) (err_name e)
    | RT_e2err (e1, d1, e) -> Printf.sprintf "OK %s D1 %s E2ERR %s" (hex e1) (show_msg d1) (err_name e)
    | RT_frameerr2 (e1, d1, e2, e) -> Printf.sprintf "OK %s D1 %s E2 %s FRAMEERR %s" (hex e1) (show_msg d1) (hex e2) (err_name e)
    | RT_full (e1, d1, e2, d2) ->
        let eq = msg_eqb d1 d2 in
        Printf.sprintf "OK %s D1 %s E2 %s D2EQ %s D2 %s" (hex e1) (show_msg d1)
          (if e1 = e2 then "same" else hex e2) (bool_s eq) (if eq then "same" else show_msg d2)
    end

let op_redecode_line args =
  match op_redecode (unhex (List.nth args 0)) with
  | Panic -> "PANIC"
  | Err e -> "MODELERR " ^ err_name e
  | Ok r -> begin match r with
    | RD_err e -> "ERR " ^ err_name e
    | RD_e1err (d1, e) -> Printf.sprintf "D1 %s E1ERR %s" (show_msg d1) (err_name e)
    | RD_frameerr (d1, e1, e) -> Printf.sprintf "D1 %s E1 %s FRAMEERR %s" (show_msg d1) (hex e1) (err_name e)
    | RD_full (d1, e1, d2) ->
        let eq = msg_eqb d1 d2 in
        Printf.sprintf "D1 %s E1 %s D2EQ %s D2 %s" (show_msg d1) (hex e1) (bool_s eq) (if eq then "same" else show_msg d2)
    end

let kind_of s = match s with
  | "U8" -> (KU, 8) | "U16" -> (KU, 16) | "U32" -> (KU, 32) | "U64" -> (KU, 64)
  | "I8" -> (KI, 8) | "I16" -> (KI, 16) | "I32" -> (KI, 32) | "I64" -> (KI, 64)
  | "SM8" -> (KSM, 8) | "SM16" -> (KSM, 16) | "SM32" -> (KSM, 32) | "SM64" -> (KSM, 64)
  | _ -> raise (Bad "kind")

let op_put_line args =
  let (k, bits) = kind_of (List.nth args 0) in
  let w = z_of_dec (List.nth args 1) and off = z_of_dec (List.nth args 2) and v = z_of_dec (List.nth args 3) in
  let data = unhex (List.nth args 4) in
  (* the harness casts the i128 argument to the carrier type *)
  let v = wrapc k (z_of_int bits) v in
  match op_put k (z_of_int bits) w off v data with
  | Ok (d, o) -> Printf.sprintf "OK %s %s" (hex_or_dash d) (z_to_dec o)
  | Err e -> Printf.sprintf "ERR %s %s %s" (err_name e) (hex_or_dash data) (z_to_dec off)
  | Panic -> "PANIC"

let op_parse_line args =
  let (k, bits) = kind_of (List.nth args 0) in
  let w = z_of_dec (List.nth args 1) and off = z_of_dec (List.nth args 2) in
  let data = unhex (List.nth args 3) in
  match op_parse k (z_of_int bits) w off data with
  | Ok (v, o) -> Printf.sprintf "OK %s %s" (z_to_dec v) (z_to_dec o)
  | Err e -> Printf.sprintf "ERR %s %s" (err_name e) (z_to_dec off)
  | Panic -> "PANIC"

let op_fenc_line args =
  match field_by_name (coq_string (List.nth args 0)) with
  | None -> "BADOP field"
  | Some fs ->
      let (v, _) = parse_val (List.nth args 1) in
      match op_fenc fs v with
      | Ok (p, w) -> Printf.sprintf "OK %s %s" (z_to_hex 1 p) (z_to_dec w)
      | Err e -> "ERR " ^ err_name e
      | Panic -> "PANIC"

let op_fdec_line args =
  match field_by_name (coq_string (List.nth args 0)) with
  | None -> "BADOP field"
  | Some fs ->
      match op_fdec fs (z_of_hex (List.nth args 1)) (z_of_dec (List.nth args 2)) with
      | Ok (v, o) -> Printf.sprintf "OK %s %s" (show_val v) (z_to_dec o)
      | Err e -> "ERR " ^ err_name e
      | Panic -> "PANIC"

let gnss_of s = match s with
  | "gps" -> G_gps | "glo" -> G_glo | "gal" -> G_gal | "sbas" -> G_sbas | "qzss" -> G_qzss
  | "bds" -> G_bds | "navic" -> G_navic | _ -> raise (Bad "gnss")
let cmp_s c = match c with Lt -> "L" | Eq -> "E" | Gt -> "G"

let op_sig op args =
  let t = sig_table (gnss_of (List.nth args 0)) in
  match op with
  | "SIGID" ->
      let s = (z_of_dec (List.nth args 1), z_of_dec (List.nth args 2)) in
      Printf.sprintf "%s valid=%s" (match to_id t s with Some i -> z_to_dec i | None -> "-") (bool_s (is_valid t s))
  | "SIGSIG" ->
      (match to_sig t (z_of_dec (List.nth args 1)) with Some (b, c) -> "G" ^ z_to_dec b ^ ":" ^ z_to_dec c | None -> "-")
  | "SIGCMP" ->
      let a = (z_of_dec (List.nth args 1), z_of_dec (List.nth args 2)) in
      let b = (z_of_dec (List.nth args 3), z_of_dec (List.nth args 4)) in
      Printf.sprintf "%s %s eq=%s" (cmp_s (sig_cmp t a b))
        (match sig_partial_cmp t a b with Some c -> cmp_s c | None -> "-")
        (bool_s (Z.eqb (fst a) (fst b) && Z.eqb (snd a) (snd b)))
  | _ -> "BADOP"

let cps_of s = match parse_val s with (VStr cps, _) -> cps | _ -> raise (Bad "string value")

let op_str88591_line args =
  let n = z_of_dec (List.nth args 0) in
  let bytes = op_str88591 n (cps_of (List.nth args 1)) in
  Printf.sprintf "%d %s %s" (List.length bytes) (hex_or_dash bytes) (show_val (VStr (df88591_chars bytes)))

let op_utf8str_line args =
  let n = z_of_dec (List.nth args 0) in
  let bytes = op_utf8str n (cps_of (List.nth args 1)) in
  match from_utf8 bytes with
  | Some chars -> Printf.sprintf "%s %s" (hex_or_dash bytes) (show_val (VStr chars))
  | None -> "PANIC"

let run_line line =
  let toks = List.filter (fun t -> t <> "") (String.split_on_char ' ' line) in
  match toks with
  | [] -> ""
  | op :: args ->
      try
        match op with
        | "FRAME" -> op_frame args
        | "SCAN" -> op_scan args
        | "ITER" -> op_iter args
        | "STREAM" -> op_stream_line args
        | "DECODE" -> op_decode args
        | "ENCODE" -> op_encode args
        | "BUILDSEQ" -> op_buildseq_line args
        | "ROUNDTRIP" -> op_roundtrip_line args
        | "ROUNDTRIPH" -> op_roundtrip_line args   (* the builder's history is irrelevant: theorem C12_history *)
        | "REDECODE" -> op_redecode_line args
        | "PUT" -> op_put_line args
        | "PARSE" -> op_parse_line args
        | "FENC" -> op_fenc_line args
        | "FDEC" -> op_fdec_line args
        | "SIGID" | "SIGSIG" | "SIGCMP" -> op_sig op args
        | "STR88591" -> op_str88591_line args
        | "UTF8STR" -> op_utf8str_line args
        | _ -> "BADOP"
      with
      | Bad s -> "BADVAL " ^ s
      | Failure s -> "BADVAL " ^ s
      | Invalid_argument s -> "BADVAL " ^ s
      | Not_found -> "BADVAL notfound"

let () =
  let ic = if Array.length Sys.argv > 1 then open_in Sys.argv.(1) else stdin in
  let buf = Buffer.create 65536 in
  (try
    while true do
      let line = input_line ic in
      Buffer.add_string buf (run_line line);
      Buffer.add_char buf '\n';
      if Buffer.length buf > 1 lsl 20 then (print_string (Buffer.contents buf); Buffer.clear buf)
    done
  with End_of_file -> ());
  print_string (Buffer.contents buf)

(** Assembler::put / Parser::parse: exact bit-level behaviour (C07). *)
From Coq Require Import ZArith List Lia Bool.
From RtcmModel Require Import Types BitIO.
From RtcmProofs Require Import BitLemmas ListZ EncodeLen.
Import ListNotations.
Open Scope Z_scope.

(** MSB-first bit [g] of a byte buffer *)
Definition bitat (data : list Z) (g : Z) : bool := Z.testbit (znth data (g / 8)) (7 - g mod 8).

(** ---------- bits of the byte masks ---------- *)
Lemma testbit_255 t : 0 <= t -> Z.testbit 255 t = (t <? 8).
Proof. intros H. change 255 with (Z.ones 8). apply Z.testbit_ones_nonneg; lia. Qed.

Lemma testbit_mask_r n t : 0 <= n -> 0 <= t -> Z.testbit (mask_r n) t = (t + n <? 8).
Proof. intros Hn Ht. unfold mask_r. rewrite Z.shiftr_spec by lia. apply testbit_255. lia. Qed.

Lemma testbit_mask_l n t : 0 <= n -> 0 <= t < 8 -> Z.testbit (mask_l n) t = (n <=? t).
Proof.
  intros Hn Ht. unfold mask_l. change 256 with (2 ^ 8). rewrite Z.mod_pow2_bits_low by lia.
  rewrite Z.mul_pow2_bits by lia. destruct (Z.leb_spec n t).
  - rewrite testbit_255 by lia. lia.
  - apply Z.testbit_neg_r. lia.
Qed.

Lemma mask_r_range n : 0 <= n -> 0 <= mask_r n < 256.
Proof.
  intros H. unfold mask_r. rewrite Z.shiftr_div_pow2 by lia. split; [apply Z.div_pos; lia|].
  apply Z.div_lt_upper_bound; [lia|]. assert (1 <= 2 ^ n) by (apply Z.pow_le_mono_r with (b := 0) (c := n) (a := 2); lia || lia). nia.
Qed.
Lemma mask_l_range n : 0 <= mask_l n < 256.
Proof. unfold mask_l. apply Z.mod_pos_bound. lia. Qed.

(** low bits survive the wrap into a carrier *)
Lemma testbit_wrapc k bits x m : 0 <= m < bits -> Z.testbit (wrapc k bits x) m = Z.testbit x m.
Proof.
  intros H. unfold wrapc. destruct (signed_kind k && _).
  - replace (x mod 2 ^ bits - 2 ^ bits) with (x mod 2 ^ bits + (-1) * 2 ^ bits) by ring.
    rewrite <- (Z.mod_pow2_bits_low (x mod 2 ^ bits + -1 * 2 ^ bits) bits m) by lia.
    rewrite Z.mod_add by (apply Z.pow_nonzero; lia). rewrite Z.mod_mod by (apply Z.pow_nonzero; lia).
    apply Z.mod_pow2_bits_low. lia.
  - apply Z.mod_pow2_bits_low. lia.
Qed.

Lemma testbit_val_cast x t : 0 <= t < 8 -> Z.testbit (val_cast x) t = Z.testbit x t.
Proof. intros H. unfold val_cast. change 256 with (2 ^ 8). apply Z.mod_pow2_bits_low. lia. Qed.
Lemma val_cast_range x : 0 <= val_cast x < 256.
Proof. unfold val_cast. apply Z.mod_pos_bound. lia. Qed.

(** a byte is determined by its 8 bits, and bitwise combinations of bytes are bytes *)
Lemma byte_lor a b : 0 <= a < 256 -> 0 <= b < 256 -> 0 <= Z.lor a b < 256.
Proof.
  intros Ha Hb. split; [apply Z.lor_nonneg; lia|].
  destruct (Z.eq_dec (Z.lor a b) 0) as [->|Hz]; [lia|].
  change 256 with (2 ^ 8). apply Z.log2_lt_pow2; [assert (0 <= Z.lor a b) by (apply Z.lor_nonneg; lia); lia|].
  rewrite Z.log2_lor by lia. apply Z.max_lub_lt.
  - destruct (Z.eq_dec a 0) as [->|]; [cbn; lia|]. apply Z.log2_lt_pow2; lia.
  - destruct (Z.eq_dec b 0) as [->|]; [cbn; lia|]. apply Z.log2_lt_pow2; lia.
Qed.
Lemma lt_pow2_of_bits x n : 0 <= x -> 0 <= n -> (forall m, n <= m -> Z.testbit x m = false) -> x < 2 ^ n.
Proof.
  intros Hx Hn Hb. destruct (Z_lt_ge_dec x (2 ^ n)) as [|Hge]; [assumption|exfalso].
  assert (Hpos : 0 < x) by (assert (0 < 2 ^ n) by (apply Z.pow_pos_nonneg; lia); lia).
  assert (Hl : n <= Z.log2 x) by (apply Z.log2_le_pow2; lia).
  pose proof (Z.bit_log2 x Hpos) as Hbit. rewrite (Hb _ Hl) in Hbit. discriminate.
Qed.

Lemma testbit_byte_high d m : 0 <= d < 256 -> 8 <= m -> Z.testbit d m = false.
Proof.
  intros Hd Hm. destruct (Z.eq_dec d 0) as [->|Hz]; [apply Z.bits_0|].
  apply Z.bits_above_log2; [lia|]. apply Z.lt_le_trans with 8; [|lia]. apply Z.log2_lt_pow2; lia.
Qed.

(** ---------- one byte of Assembler::put ---------- *)
Section PutStep.
  Variables (k : ckind) (bits value lh_st rh_en dlen len : Z).
  Hypothesis Hlh : 0 <= lh_st < 8.
  Hypothesis Hrh : 0 <= rh_en < 8.
  Hypothesis Hdlen : 1 <= dlen.
  Hypothesis Hsum : 8 * dlen = lh_st + len + rh_en.
  Hypothesis Hlen : 1 <= len <= bits.
  Hypothesis Hbits : 8 <= bits.

  (** bits still to be written when byte i of the window is reached *)
  Definition lenlft_in (i : Z) : Z := if i =? 0 then len else len - 8 * i + lh_st.
  (** ... and after it *)
  Definition lenlft_out (i : Z) : Z := if i =? dlen - 1 then 0 else len - 8 * (i + 1) + lh_st.
  (** bit t (LSB = 0) of window byte i belongs to the field *)
  Definition in_bset (i t : Z) : bool :=
    (if i =? 0 then t + lh_st <? 8 else true) && (if i =? dlen - 1 then rh_en <=? t else true).

  Lemma lenlft_step i : 0 <= i < dlen - 1 -> lenlft_out i = lenlft_in (i + 1).
  Proof. intros H. unfold lenlft_out, lenlft_in. destruct (Z.eqb_spec i (dlen - 1)); [lia|]. destruct (Z.eqb_spec (i + 1) 0); lia. Qed.

  Ltac usub_ok :=
    unfold usub; cbn [bind]; repeat match goal with |- context [if ?b <=? ?a then _ else _] => destruct (Z.leb_spec b a); [|lia]; cbn [bind] end.

  (** bit t of the shifted value that lands in the byte *)
  Lemma shl_ok a : 0 <= a < 8 -> shl k bits value a = Ok (wrapc k bits (value * 2 ^ a)).
  Proof. intros Ha. unfold shl. replace ((0 <=? a) && (a <? bits)) with true by lia. reflexivity. Qed.
  Lemma shl_bits a t : 0 <= a <= t -> t < 8 -> Z.testbit (val_cast (wrapc k bits (value * 2 ^ a))) t = Z.testbit value (t - a).
  Proof. intros Ha Ht. rewrite testbit_val_cast by lia. rewrite testbit_wrapc by lia. apply Z.mul_pow2_bits. lia. Qed.
  Lemma shr_ok n : 0 <= n < bits -> shr k bits value n = Ok (Z.shiftr value n).
  Proof. intros Hn. unfold shr. replace ((0 <=? n) && (n <? bits)) with true by lia. reflexivity. Qed.
  Lemma shr_bits n t : 0 <= n -> 0 <= t < 8 -> Z.testbit (val_cast (Z.shiftr value n)) t = Z.testbit value (t + n).
  Proof. intros Hn Ht. rewrite testbit_val_cast by lia. apply Z.shiftr_spec. lia. Qed.

  (** the merge of a byte with the new bits *)
  Lemma merge_bits d bset bval t : 0 <= t -> Z.testbit (255 - bset) t = negb (Z.testbit bset t) ->
    Z.testbit (Z.lor (Z.land d (Z.lor (255 - bset) bval)) (Z.land bset bval)) t =
    if Z.testbit bset t then Z.testbit bval t else Z.testbit d t.
  Proof.
    intros Ht Hn. rewrite Z.lor_spec, !Z.land_spec, Z.lor_spec, Hn.
    destruct (Z.testbit bset t), (Z.testbit bval t), (Z.testbit d t); reflexivity.
  Qed.

  Lemma testbit_255_minus bset t : 0 <= bset < 256 -> 0 <= t < 8 -> Z.testbit (255 - bset) t = negb (Z.testbit bset t).
  Proof.
    intros Hb Ht. replace (255 - bset) with (Z.lxor 255 bset).
    - rewrite Z.lxor_spec, testbit_255 by lia. replace (t <? 8) with true by lia. destruct (Z.testbit bset t); reflexivity.
    - (* 255 - b = 255 xor b for a byte b: no borrow *)
      change 255 with (Z.ones 8). symmetry. rewrite Z.lxor_comm.
      assert (Hl : Z.land bset (Z.ones 8) = bset) by (rewrite Z.land_ones by lia; apply Z.mod_small; change (2 ^ 8) with 256; lia).
      assert (Hd : Z.ldiff bset (Z.ones 8) = 0).
      { apply Z.bits_inj'. intros m Hm. rewrite Z.ldiff_spec, Z.bits_0. destruct (Z_lt_ge_dec m 8).
        - rewrite Z.testbit_ones_nonneg by lia. replace (m <? 8) with true by lia. apply andb_false_r.
        - rewrite testbit_byte_high by lia. reflexivity. }
      rewrite (Z.sub_nocarry_ldiff _ _ Hd). apply Z.bits_inj'. intros m Hm.
      rewrite Z.ldiff_spec, Z.lxor_spec. destruct (Z_lt_ge_dec m 8).
      + rewrite Z.testbit_ones_nonneg by lia. replace (m <? 8) with true by lia. destruct (Z.testbit bset m); reflexivity.
      + rewrite Z.testbit_ones_nonneg by lia. replace (m <? 8) with false by lia. rewrite testbit_byte_high by lia. reflexivity.
  Qed.
  Lemma bset_bits_range b : 0 <= b < 256 -> forall m, 0 <= m -> 0 <= Z.land b m < 256.
  Proof.
    intros Hb m Hm. split; [apply Z.land_nonneg; lia|]. change 256 with (2 ^ 8). apply lt_pow2_of_bits; [apply Z.land_nonneg; lia|lia|].
    intros j Hj. rewrite Z.land_spec, testbit_byte_high by lia. reflexivity.
  Qed.

  Lemma merged_range d bset bval : 0 <= d < 256 -> 0 <= bset < 256 -> 0 <= bval < 256 ->
    0 <= Z.lor (Z.land d (Z.lor (255 - bset) bval)) (Z.land bset bval) < 256.
  Proof.
    intros Hd Hb Hv. assert (H1 : 0 <= Z.land d (Z.lor (255 - bset) bval)) by (apply Z.land_nonneg; lia).
    assert (H2 : 0 <= Z.land bset bval) by (apply Z.land_nonneg; lia).
    split; [apply Z.lor_nonneg; lia|]. change 256 with (2 ^ 8). apply lt_pow2_of_bits; [apply Z.lor_nonneg; lia|lia|].
    intros j Hj. rewrite Z.lor_spec, !Z.land_spec, (testbit_byte_high d), (testbit_byte_high bset) by lia. reflexivity.
  Qed.

  Lemma put_step_ok i d : 0 <= i < dlen -> 0 <= d < 256 ->
    exists d', put_step k bits value lh_st rh_en dlen i d (lenlft_in i) = Ok (d', lenlft_out i) /\
               0 <= d' < 256 /\
               forall t, 0 <= t < 8 ->
                 Z.testbit d' t = if in_bset i t then Z.testbit value (t + len + lh_st - 8 * (i + 1)) else Z.testbit d t.
  Proof.
    intros Hi Hd. unfold put_step, lenlft_in, lenlft_out, in_bset.
    pose proof (mask_r_range lh_st ltac:(lia)) as Rr. pose proof (mask_l_range rh_en) as Rl.
    destruct (Z.eqb_spec i 0) as [F|F]; destruct (Z.eqb_spec i (dlen - 1)) as [L|L].
    - (* single byte *)
      usub_ok. replace (len - (8 - lh_st - rh_en) <=? rh_en) with true by lia.
      replace (rh_en - (len - (8 - lh_st - rh_en))) with rh_en by lia. rewrite shl_ok by lia. cbn [bind].
      set (bset := Z.land (Z.land 255 (mask_r lh_st)) (mask_l rh_en)).
      assert (Hb : 0 <= bset < 256) by (apply bset_bits_range; [apply bset_bits_range; lia|lia]).
      eexists. split; [f_equal; f_equal; lia|]. split; [apply merged_range; [lia|exact Hb|apply val_cast_range]|].
      intros t Ht. rewrite merge_bits by (try lia; apply testbit_255_minus; lia).
      unfold bset. rewrite !Z.land_spec, testbit_255, testbit_mask_r, testbit_mask_l by lia.
      replace (t <? 8) with true by lia. cbn [andb].
      destruct (Z.ltb_spec (t + lh_st) 8), (Z.leb_spec rh_en t); cbn [andb]; try reflexivity.
      rewrite shl_bits by lia. f_equal. lia.
    - (* first of several bytes *)
      usub_ok. replace (len - (8 - lh_st) <=? 0) with false by lia.
      rewrite shr_ok by lia. cbn [bind].
      set (bset := Z.land 255 (mask_r lh_st)).
      assert (Hb : 0 <= bset < 256) by (apply bset_bits_range; lia).
      eexists. split; [f_equal; f_equal; lia|]. split; [apply merged_range; [lia|exact Hb|apply val_cast_range]|].
      intros t Ht. rewrite merge_bits by (try lia; apply testbit_255_minus; lia).
      unfold bset. rewrite !Z.land_spec, testbit_255, testbit_mask_r by lia.
      replace (t <? 8) with true by lia. cbn [andb]. rewrite andb_true_r.
      destruct (Z.ltb_spec (t + lh_st) 8); try reflexivity.
      rewrite shr_bits by lia. f_equal. lia.
    - (* last of several bytes *)
      usub_ok. replace (len - 8 * i + lh_st - (8 - rh_en) <=? rh_en) with true by lia.
      replace (rh_en - (len - 8 * i + lh_st - (8 - rh_en))) with rh_en by lia. rewrite shl_ok by lia. cbn [bind].
      set (bset := Z.land 255 (mask_l rh_en)).
      assert (Hb : 0 <= bset < 256) by (apply bset_bits_range; lia).
      eexists. split; [f_equal; f_equal; lia|]. split; [apply merged_range; [lia|exact Hb|apply val_cast_range]|].
      intros t Ht. rewrite merge_bits by (try lia; apply testbit_255_minus; lia).
      unfold bset. rewrite !Z.land_spec, testbit_255, testbit_mask_l by lia.
      replace (t <? 8) with true by lia. cbn [andb].
      destruct (Z.leb_spec rh_en t); try reflexivity.
      rewrite shl_bits by lia. f_equal. lia.
    - (* a middle byte *)
      usub_ok. replace (len - 8 * i + lh_st - 8 <=? 0) with false by lia.
      rewrite shr_ok by lia. cbn [bind].
      eexists. split; [f_equal; f_equal; lia|]. split; [apply merged_range; [lia|lia|apply val_cast_range]|].
      intros t Ht. rewrite merge_bits by (try lia; apply testbit_255_minus; lia).
      rewrite testbit_255 by lia. replace (t <? 8) with true by lia. cbn [andb].
      rewrite shr_bits by lia. f_equal. lia.
  Qed.
End PutStep.

(** ---------- list plumbing ---------- *)
Lemma nth_upd_same : forall (l : list Z) j f, (j < length l)%nat -> nth j (upd l j f) 0 = f (nth j l 0).
Proof. induction l as [|x r IH]; intros j f H; [cbn in H; lia|]. destruct j; cbn; [reflexivity|apply IH; cbn in H; lia]. Qed.
Lemma nth_upd_other : forall (l : list Z) j m f, m <> j -> nth m (upd l j f) 0 = nth m l 0.
Proof.
  induction l as [|x r IH]; intros j m f H; [reflexivity|]. destruct j, m; cbn; try reflexivity; try lia. apply IH. lia.
Qed.
Lemma nth_error_nth (l : list Z) j : (j < length l)%nat -> nth_error l j = Some (nth j l 0).
Proof. revert j. induction l as [|x r IH]; intros j H; [cbn in H; lia|]. destruct j; cbn; [reflexivity|apply IH; cbn in H; lia]. Qed.
Lemma bytes_ok_nth (l : list Z) j : bytes_ok l = true -> 0 <= nth j l 0 < 256.
Proof.
  intros H. destruct (nth_in_or_default j l 0) as [Hin|Hd]; [|rewrite Hd; lia].
  unfold bytes_ok in H. rewrite forallb_forall in H. specialize (H _ Hin). unfold byte_ok in H. lia.
Qed.
Lemma bytes_ok_upd : forall (l : list Z) j x, bytes_ok l = true -> 0 <= x < 256 -> bytes_ok (upd l j (fun _ => x)) = true.
Proof.
  induction l as [|y r IH]; intros j x H Hx; [reflexivity|]. unfold bytes_ok in *. cbn [forallb] in H. apply andb_true_iff in H. destruct H as [Hy Hr].
  destruct j; cbn [upd forallb]; apply andb_true_iff; split; try assumption; [unfold byte_ok; lia|apply IH; assumption].
Qed.

(** ---------- the loop of Assembler::put ---------- *)
Section PutLoop.
  Variables (k : ckind) (bits value lh_st rh_en dlen len : Z) (sti : nat).
  Hypothesis Hlh : 0 <= lh_st < 8.
  Hypothesis Hrh : 0 <= rh_en < 8.
  Hypothesis Hdlen : 1 <= dlen.
  Hypothesis Hsum : 8 * dlen = lh_st + len + rh_en.
  Hypothesis Hlen : 1 <= len <= bits.
  Hypothesis Hbits : 8 <= bits.

  Definition new_bit (data : list Z) (j : nat) (t : Z) : bool :=
    let i := Z.of_nat j - Z.of_nat sti in
    if in_bset lh_st rh_en dlen i t then Z.testbit value (t + len + lh_st - 8 * (i + 1)) else Z.testbit (nth j data 0) t.

  Lemma put_loop_spec : forall n i data, Z.of_nat n = dlen - i -> 0 <= i ->
    (sti + Z.to_nat dlen <= length data)%nat -> bytes_ok data = true ->
    exists data', put_loop k bits value lh_st rh_en dlen sti n i data (lenlft_in lh_st len i) = Ok data' /\
                  length data' = length data /\ bytes_ok data' = true /\
                  forall (j : nat) t, 0 <= t < 8 ->
                    Z.testbit (nth j data' 0) t =
                    if (sti + Z.to_nat i <=? j)%nat && (j <? sti + Z.to_nat dlen)%nat then new_bit data j t else Z.testbit (nth j data 0) t.
  Proof.
    induction n as [|n IH]; intros i data Hn Hi Hlen' Hb.
    - exists data. cbn [put_loop]. repeat split; try assumption. intros j t Ht.
      replace ((sti + Z.to_nat i <=? j)%nat && (j <? sti + Z.to_nat dlen)%nat) with false; [reflexivity|].
      symmetry. apply andb_false_iff. destruct (Nat.leb_spec (sti + Z.to_nat i) j); [right; apply Nat.ltb_ge; lia|left; reflexivity].
    - cbn [put_loop]. set (j0 := (sti + Z.to_nat i)%nat).
      assert (Hj0 : (j0 < length data)%nat) by (unfold j0; lia).
      rewrite (nth_error_nth data j0 Hj0).
      destruct (put_step_ok k bits value lh_st rh_en dlen len Hlh Hrh Hsum Hlen Hbits i (nth j0 data 0) ltac:(lia) (bytes_ok_nth data j0 Hb))
        as [d' [Hstep [Hd' Hbits']]].
      rewrite Hstep. cbn [bind].
      set (data1 := upd data j0 (fun _ => d')).
      assert (Hl1 : length data1 = length data) by apply upd_length.
      assert (Hb1 : bytes_ok data1 = true) by (apply bytes_ok_upd; assumption).
      destruct n as [|n'].
      + (* that was the last byte *)
        cbn [put_loop]. exists data1. repeat split; try assumption. intros j t Ht.
        assert (Hil : i = dlen - 1) by lia.
        destruct (Nat.eq_dec j j0) as [->|Hne].
        * unfold data1. rewrite nth_upd_same by exact Hj0. rewrite Hbits' by exact Ht.
          assert (Hc : ((j0 <=? j0)%nat && (j0 <? sti + Z.to_nat dlen)%nat) = true)
            by (apply andb_true_iff; split; [apply Nat.leb_le|apply Nat.ltb_lt]; unfold j0; lia).
          rewrite Hc.
          unfold new_bit. replace (Z.of_nat j0 - Z.of_nat sti) with i by (unfold j0; lia). reflexivity.
        * unfold data1. rewrite nth_upd_other by exact Hne.
          assert (Hc : ((j0 <=? j)%nat && (j <? sti + Z.to_nat dlen)%nat) = false).
          { apply andb_false_iff. destruct (Nat.leb_spec j0 j); [right; apply Nat.ltb_ge; unfold j0 in *; lia|left; reflexivity]. }
          rewrite Hc. reflexivity.
      + assert (Hil : 0 <= i < dlen - 1) by lia.
        rewrite (lenlft_step lh_st dlen len i Hil).
        destruct (IH (i + 1) data1 ltac:(lia) ltac:(lia) ltac:(lia) Hb1) as [data' [Hloop [Hl' [Hb' Hspec]]]].
        exists data'. split; [exact Hloop|]. split; [lia|]. split; [exact Hb'|].
        intros j t Ht. rewrite (Hspec j t Ht).
        replace (Z.to_nat (i + 1)) with (S (Z.to_nat i)) by lia.
        destruct (Nat.eq_dec j j0) as [->|Hne].
        * (* byte j0 was written in this iteration and is left alone afterwards *)
          assert (Hc1 : ((sti + S (Z.to_nat i) <=? j0)%nat && (j0 <? sti + Z.to_nat dlen)%nat) = false)
            by (apply andb_false_iff; left; apply Nat.leb_gt; unfold j0; lia).
          assert (Hc2 : ((j0 <=? j0)%nat && (j0 <? sti + Z.to_nat dlen)%nat) = true)
            by (apply andb_true_iff; split; [apply Nat.leb_le|apply Nat.ltb_lt]; unfold j0; lia).
          rewrite Hc1, Hc2.
          unfold data1. rewrite nth_upd_same by exact Hj0. rewrite Hbits' by exact Ht.
          unfold new_bit. replace (Z.of_nat j0 - Z.of_nat sti) with i by (unfold j0; lia). reflexivity.
        * assert (Hc : (sti + S (Z.to_nat i) <=? j)%nat = (j0 <=? j)%nat).
          { destruct (Nat.leb_spec j0 j), (Nat.leb_spec (sti + S (Z.to_nat i)) j); try reflexivity; unfold j0 in *; lia. }
          rewrite Hc. unfold new_bit, data1. rewrite !nth_upd_other by exact Hne. reflexivity.
  Qed.
End PutLoop.

(** ---------- Assembler::put ---------- *)
Ltac Zify.zify_post_hook ::= Z.div_mod_to_equations.

Lemma window_arith offset len :
  0 <= offset -> 1 <= len ->
  let lh_st := offset mod 8 in
  let rh_en := (8 - (offset + len) mod 8) mod 8 in
  let sti := offset / 8 in
  let dlen := (offset + len - 1) / 8 - sti + 1 in
  0 <= lh_st < 8 /\ 0 <= rh_en < 8 /\ 1 <= dlen /\ 8 * dlen = lh_st + len + rh_en /\ offset = 8 * sti + lh_st.
Proof. intros Ho Hl. cbv zeta. lia. Qed.

Theorem put_bits k bits data offset value len value' :
  8 <= bits -> 1 <= len <= bits -> 0 <= offset -> offset + len <= 8 * zlen data -> bytes_ok data = true ->
  sign_fix_rev k bits value len = Ok value' ->
  exists data', put k bits data offset value len = Ok (data', offset + len) /\
                zlen data' = zlen data /\ bytes_ok data' = true /\
                forall g, 0 <= g < 8 * zlen data ->
                  bitat data' g = if (offset <=? g) && (g <? offset + len) then Z.testbit value' (offset + len - 1 - g) else bitat data g.
Proof.
  intros Hbits Hlen Ho Hfit Hb Hsfr. unfold put.
  destruct (Z.ltb_spec (zlen data * 8) (offset + len)) as [Hlt|_]; [lia|].
  rewrite Hsfr. cbn [bind].
  destruct (window_arith offset len Ho ltac:(lia)) as [Hlh [Hrh [Hdlen [Hsum Hoff]]]].
  set (lh_st := offset mod 8) in *. set (rh_en := (8 - (offset + len) mod 8) mod 8) in *.
  set (sti := offset / 8) in *. set (dlen := (offset + len - 1) / 8 - sti + 1) in *.
  unfold usub. destruct (Z.leb_spec 1 (offset + len)) as [_|Hc]; [|lia]. cbn [bind].
  change ((offset + len - 1) / 8 - sti + 1) with dlen.
  assert (Hwin : (Z.to_nat sti + Z.to_nat dlen <= length data)%nat).
  { unfold zlen in Hfit. assert (0 <= sti) by (unfold sti; apply Z.div_pos; lia). assert (8 * (sti + dlen) <= 8 * Z.of_nat (length data)) by lia. lia. }
  destruct (put_loop_spec k bits value' lh_st rh_en dlen len (Z.to_nat sti) Hlh Hrh Hdlen Hsum Hlen Hbits
              (Z.to_nat dlen) 0 data ltac:(lia) ltac:(lia) Hwin Hb) as [data' [Hloop [Hl' [Hb' Hspec]]]].
  change (lenlft_in lh_st len 0) with len in Hloop. rewrite Hloop. cbn [bind].
  exists data'. split; [reflexivity|]. split; [unfold zlen; lia|]. split; [exact Hb'|].
  intros g Hg. unfold bitat, znth.
  assert (Hq : 0 <= g / 8) by (apply Z.div_pos; lia).
  assert (Ht : 0 <= 7 - g mod 8 < 8) by lia.
  rewrite (Hspec (Z.to_nat (g / 8)) (7 - g mod 8) Ht). clear Hspec Hloop.
  assert (Hsti : 0 <= sti) by (unfold sti; apply Z.div_pos; lia).
  unfold new_bit, in_bset.
  replace (Z.of_nat (Z.to_nat (g / 8)) - Z.of_nat (Z.to_nat sti)) with (g / 8 - sti) by lia.
  (* window membership and field membership *)
  destruct (Z.leb_spec offset g) as [Hog|Hog]; destruct (Z.ltb_spec g (offset + len)) as [Hgl|Hgl]; cbn [andb].
  - (* inside the field *)
    replace ((Z.to_nat sti + Z.to_nat 0 <=? Z.to_nat (g / 8))%nat) with true by (symmetry; apply Nat.leb_le; lia).
    replace ((Z.to_nat (g / 8) <? Z.to_nat sti + Z.to_nat dlen)%nat) with true by (symmetry; apply Nat.ltb_lt; lia).
    cbn [andb].
    replace (if g / 8 - sti =? 0 then 7 - g mod 8 + lh_st <? 8 else true) with true
      by (destruct (Z.eqb_spec (g / 8 - sti) 0); [symmetry; apply Z.ltb_lt; lia|reflexivity]).
    replace (if g / 8 - sti =? dlen - 1 then rh_en <=? 7 - g mod 8 else true) with true
      by (destruct (Z.eqb_spec (g / 8 - sti) (dlen - 1)); [symmetry; apply Z.leb_le; lia|reflexivity]).
    cbn [andb]. f_equal. lia.
  - (* at or beyond the end of the field *)
    destruct ((Z.to_nat sti + Z.to_nat 0 <=? Z.to_nat (g / 8))%nat && (Z.to_nat (g / 8) <? Z.to_nat sti + Z.to_nat dlen)%nat) eqn:Hw; [|reflexivity].
    apply andb_true_iff in Hw. destruct Hw as [Hw1 Hw2]. apply Nat.leb_le in Hw1. apply Nat.ltb_lt in Hw2.
    replace (if g / 8 - sti =? dlen - 1 then rh_en <=? 7 - g mod 8 else true) with false
      by (destruct (Z.eqb_spec (g / 8 - sti) (dlen - 1)); [symmetry; apply Z.leb_gt; lia|lia]).
    rewrite andb_false_r. reflexivity.
  - (* before the field *)
    destruct ((Z.to_nat sti + Z.to_nat 0 <=? Z.to_nat (g / 8))%nat && (Z.to_nat (g / 8) <? Z.to_nat sti + Z.to_nat dlen)%nat) eqn:Hw; [|reflexivity].
    apply andb_true_iff in Hw. destruct Hw as [Hw1 Hw2]. apply Nat.leb_le in Hw1. apply Nat.ltb_lt in Hw2.
    replace (if g / 8 - sti =? 0 then 7 - g mod 8 + lh_st <? 8 else true) with false
      by (destruct (Z.eqb_spec (g / 8 - sti) 0); [symmetry; apply Z.ltb_ge; lia|lia]).
    reflexivity.
  - exfalso. clear - Hog Hgl Hlen. lia.
Qed.

(** a write that would extend past the end of the buffer reports BufferOverflow and nothing else happens
    (an [Err] carries no new buffer and no new cursor) *)
Theorem put_overflow k bits data offset value len :
  8 * zlen data < offset + len -> put k bits data offset value len = Err BufferOverflow.
Proof. intros H. unfold put. destruct (Z.ltb_spec (zlen data * 8) (offset + len)); [reflexivity|lia]. Qed.

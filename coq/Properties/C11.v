(** C11 -- quantisation picks the nearest representable value.
    Proofs are in Proofs/FloatProofs.v (Flocq: what the encoder computes on any finite in-range input,
    its monotonicity, the half-step bound with an explicit rational slack per row) and
    Proofs/FieldProofs.v.  The rows are regenerated from the df! invocations of /repo on every run and the
    table obligation re-checked.  Inputs are the finite values of the field's float type (binary32 or
    binary64: "every real input" a caller can pass); "representable values" are the decoded grid points
    dec k, k in the field's carrier range.
    [row_slack r b N] is an explicit rational: res * (rounding of the quotient, in steps) + (rounding of
    decode); [C11_rows_ok] checks it is at most a quarter step for every row. *)
From Coq Require Import Reals ZArith List Lia Bool QArith Qreals.
From Flocq Require Import Core BinarySingleNaN.
From RtcmModel Require Import Types BitIO Floats Field Bias Top.
From RtcmGen Require Import GenFields.
From RtcmProofs Require Import ListZ BitProofs DecodeTotal FloatProofs FloatBits FieldProofs.
Import ListNotations.
Open Scope Z_scope.

Theorem C11_rows_ok : forallb (fun p => field_near_ok (snd p)) all_fields = true.
Proof. vm_cast_no_check (eq_refl true). Qed.

Lemma row_of name fs : In (name, fs) all_fields -> field_near_ok fs = true.
Proof. intros Hin. pose proof C11_rows_ok as H. rewrite forallb_forall in H. exact (H _ Hin). Qed.

Section F32.
  Variables (name : String.string) (fs : field_spec).
  Hypothesis Hin : In (name, fs) all_fields.
  Hypothesis Hdt : f_dt fs = DF32.
  Notation lo := (pat_lo (f_ck fs) (f_len fs)).
  Notation hi := (pat_hi (f_ck fs) (f_len fs)).

  Lemma f32_row : exists r b, num_flt 24 128 Hp32 Hpe32 (f_res fs) = Some (Some r) /\ num_flt 24 128 Hp32 Hpe32 (f_bias fs) = Some b /\
    flt_near_ok 24 128 Hp32 Hpe32 fs = true.
  Proof.
    pose proof (row_of name fs Hin) as H. unfold field_near_ok in H. rewrite Hdt in H. pose proof H as H'. unfold flt_near_ok in H'.
    destruct (num_flt 24 128 Hp32 Hpe32 (f_res fs)) as [[r|]|]; try discriminate.
    destruct (num_flt 24 128 Hp32 Hpe32 (f_bias fs)) as [b|]; try discriminate.
    exists r, b. repeat split; assumption.
  Qed.

  (** x between the adjacent grid points dec k and dec (k+1): the encoder returns k or k+1, and the value
      that result decodes to is within half a resolution step plus the row's slack (<= a quarter step) of x *)
  Theorem C11_nearest_f32 : forall (x : f32) k, is_finite x = true -> lo <= k -> k + 1 <= hi ->
    exists r b, num_flt 24 128 Hp32 Hpe32 (f_res fs) = Some (Some r) /\ num_flt 24 128 Hp32 Hpe32 (f_bias fs) = Some b /\
    let dec := fdec_core 24 128 Hp32 Hpe32 (Some r) b in
    ((B2R (dec k) <= B2R x <= B2R (dec (k + 1)%Z))%R ->
     exists n, encode_core fs (VF32 (f32_to_bits x)) = Ok n /\ (n = k \/ n = k + 1) /\
               decode_core fs n = Ok (VF32 (f32_to_bits (dec n))) /\
               (Rabs (B2R x - B2R (dec n)) <= B2R r / 2 + Q2R (row_slack 24 128 r b (patN (f_ck fs) (f_len fs))))%R /\
               (Q2R (row_slack 24 128 r b (patN (f_ck fs) (f_len fs))) <= B2R r / 4)%R).
  Proof.
    intros x k Fx Hk Hk1. destruct f32_row as [r [b [Er [Eb Hok]]]]. exists r, b. split; [exact Er|]. split; [exact Eb|].
    cbv zeta. intros Hx.
    destruct (flt_nearest 24 128 Hp32 Hpe32 fs r b Er Eb Hok x k Fx Hk Hk1 Hx) as [n [E [Hn [Hd Hs]]]].
    exists n. rewrite (encode_core_f32 fs (Some r) b x Hdt Er Eb Fx). split; [exact E|]. split; [exact Hn|].
    split; [apply decode_core_f32; assumption|]. split; assumption.
  Qed.

  (** monotone on the whole range, and the result stays inside the field's range (no wrap-around) *)
  Theorem C11_monotone_f32 : forall (x y : f32), is_finite x = true -> is_finite y = true ->
    exists r b, num_flt 24 128 Hp32 Hpe32 (f_res fs) = Some (Some r) /\ num_flt 24 128 Hp32 Hpe32 (f_bias fs) = Some b /\
    let dec := fdec_core 24 128 Hp32 Hpe32 (Some r) b in
    ((B2R (dec lo) <= B2R x)%R -> (B2R x <= B2R y)%R -> (B2R y <= B2R (dec hi))%R ->
     exists nx ny, encode_core fs (VF32 (f32_to_bits x)) = Ok nx /\ encode_core fs (VF32 (f32_to_bits y)) = Ok ny /\
                   lo <= nx <= ny /\ ny <= hi).
  Proof.
    intros x y Fx Fy. destruct f32_row as [r [b [Er [Eb Hok]]]]. exists r, b. split; [exact Er|]. split; [exact Eb|].
    cbv zeta. intros H1 H2 H3.
    destruct (flt_monotone 24 128 Hp32 Hpe32 fs r b Er Eb Hok x y Fx Fy H1 H2 H3) as [nx [ny [Ex [Ey Hxy]]]].
    exists nx, ny. rewrite (encode_core_f32 fs (Some r) b x Hdt Er Eb Fx), (encode_core_f32 fs (Some r) b y Hdt Er Eb Fy). repeat split; tauto.
  Qed.
End F32.

Section F64.
  Variables (name : String.string) (fs : field_spec).
  Hypothesis Hin : In (name, fs) all_fields.
  Hypothesis Hdt : f_dt fs = DF64.
  Notation lo := (pat_lo (f_ck fs) (f_len fs)).
  Notation hi := (pat_hi (f_ck fs) (f_len fs)).

  Lemma f64_row : exists r b, num_flt 53 1024 Hp64 Hpe64 (f_res fs) = Some (Some r) /\ num_flt 53 1024 Hp64 Hpe64 (f_bias fs) = Some b /\
    flt_near_ok 53 1024 Hp64 Hpe64 fs = true.
  Proof.
    pose proof (row_of name fs Hin) as H. unfold field_near_ok in H. rewrite Hdt in H. pose proof H as H'. unfold flt_near_ok in H'.
    destruct (num_flt 53 1024 Hp64 Hpe64 (f_res fs)) as [[r|]|]; try discriminate.
    destruct (num_flt 53 1024 Hp64 Hpe64 (f_bias fs)) as [b|]; try discriminate.
    exists r, b. repeat split; assumption.
  Qed.

  Theorem C11_nearest_f64 : forall (x : f64) k, is_finite x = true -> lo <= k -> k + 1 <= hi ->
    exists r b, num_flt 53 1024 Hp64 Hpe64 (f_res fs) = Some (Some r) /\ num_flt 53 1024 Hp64 Hpe64 (f_bias fs) = Some b /\
    let dec := fdec_core 53 1024 Hp64 Hpe64 (Some r) b in
    ((B2R (dec k) <= B2R x <= B2R (dec (k + 1)%Z))%R ->
     exists n, encode_core fs (VF64 (f64_to_bits x)) = Ok n /\ (n = k \/ n = k + 1) /\
               decode_core fs n = Ok (VF64 (f64_to_bits (dec n))) /\
               (Rabs (B2R x - B2R (dec n)) <= B2R r / 2 + Q2R (row_slack 53 1024 r b (patN (f_ck fs) (f_len fs))))%R /\
               (Q2R (row_slack 53 1024 r b (patN (f_ck fs) (f_len fs))) <= B2R r / 4)%R).
  Proof.
    intros x k Fx Hk Hk1. destruct f64_row as [r [b [Er [Eb Hok]]]]. exists r, b. split; [exact Er|]. split; [exact Eb|].
    cbv zeta. intros Hx.
    destruct (flt_nearest 53 1024 Hp64 Hpe64 fs r b Er Eb Hok x k Fx Hk Hk1 Hx) as [n [E [Hn [Hd Hs]]]].
    exists n. rewrite (encode_core_f64 fs (Some r) b x Hdt Er Eb Fx). split; [exact E|]. split; [exact Hn|].
    split; [apply decode_core_f64; assumption|]. split; assumption.
  Qed.

  Theorem C11_monotone_f64 : forall (x y : f64), is_finite x = true -> is_finite y = true ->
    exists r b, num_flt 53 1024 Hp64 Hpe64 (f_res fs) = Some (Some r) /\ num_flt 53 1024 Hp64 Hpe64 (f_bias fs) = Some b /\
    let dec := fdec_core 53 1024 Hp64 Hpe64 (Some r) b in
    ((B2R (dec lo) <= B2R x)%R -> (B2R x <= B2R y)%R -> (B2R y <= B2R (dec hi))%R ->
     exists nx ny, encode_core fs (VF64 (f64_to_bits x)) = Ok nx /\ encode_core fs (VF64 (f64_to_bits y)) = Ok ny /\
                   lo <= nx <= ny /\ ny <= hi).
  Proof.
    intros x y Fx Fy. destruct f64_row as [r [b [Er [Eb Hok]]]]. exists r, b. split; [exact Er|]. split; [exact Eb|].
    cbv zeta. intros H1 H2 H3.
    destruct (flt_monotone 53 1024 Hp64 Hpe64 fs r b Er Eb Hok x y Fx Fy H1 H2 H3) as [nx [ny [Ex [Ey Hxy]]]].
    exists nx, ny. rewrite (encode_core_f64 fs (Some r) b x Hdt Er Eb Fx), (encode_core_f64 fs (Some r) b y Hdt Er Eb Fy). repeat split; tauto.
  Qed.
End F64.

(** non-vacuity: df025 (ECEF coordinate, 38 bits, 0.0001 m, f64): 0.123456 m lies between grid points 1234
    and 1235 and is encoded as the nearer one, 1235 *)
Example C11_example :
  match encode_core df025 (VF64 (f64_to_bits (of_me 53 1024 Hp64 Hpe64 8895942329546431 (-56)))) with
  | Ok n => n = 1235 | _ => False end.
Proof. vm_compute. reflexivity. Qed.

Print Assumptions C11_rows_ok.
Print Assumptions C11_nearest_f32.
Print Assumptions C11_monotone_f32.
Print Assumptions C11_nearest_f64.
Print Assumptions C11_monotone_f64.

(** Data fields: decoding a carrier value and encoding the result gives the value back (C08), for integer
    rows by arithmetic and for scaled rows by the error-bound argument of FloatProofs; exactly one carrier
    value of an optional field means "absent". *)
From Coq Require Import Reals ZArith List Lia Bool QArith Qreals.
From Flocq Require Import Core BinarySingleNaN.
From RtcmModel Require Import Types BitIO Floats Field.
From RtcmProofs Require Import ListZ BitProofs DecodeBound DecodeTotal FloatProofs FloatBits.
Import ListNotations.
Open Scope Z_scope.

Ltac Zify.zify_post_hook ::= Z.div_mod_to_equations.

Definition patN (ck : ckind) (len : Z) : Z := Z.max (Z.abs (pat_lo ck len)) (Z.abs (pat_hi ck len)).

(** ---------- integer rows ---------- *)
Definition int_rt_ok (dk : ckind * Z) (r b : option Z) (ck : ckind) (cbits len : Z) : bool :=
  int_safe dk r b ck len
  && (1 <=? match r with Some x => x | None => 1 end)
  && match b with Some _ => 0 <=? pat_lo ck len | None => true end
  && (1 <=? cbits) && (cmin ck cbits <=? pat_lo ck len) && (pat_hi ck len <=? cmax ck cbits).

Lemma int_roundtrip dk r b ck cbits len c : int_rt_ok dk r b ck cbits len = true ->
  pat_lo ck len <= c <= pat_hi ck len ->
  exists x, idec_core dk r b c = Ok x /\ in_carrier (fst dk) (snd dk) x = true /\ ienc_core dk r b ck cbits x = Ok c.
Proof.
  unfold int_rt_ok. intros H Hc.
  apply andb_true_iff in H. destruct H as [H K5]. apply andb_true_iff in H. destruct H as [H K4].
  apply andb_true_iff in H. destruct H as [H K3]. apply andb_true_iff in H. destruct H as [H K2].
  apply andb_true_iff in H. destruct H as [H K1]. apply Z.leb_le in K1, K3, K4, K5.
  unfold int_safe in H. cbv zeta in H.
  apply andb_true_iff in H. destruct H as [H H6]. apply andb_true_iff in H. destruct H as [H H0].
  apply andb_true_iff in H. destruct H as [H H1]. apply andb_true_iff in H. destruct H as [H H2].
  apply andb_true_iff in H. destruct H as [H H3]. apply andb_true_iff in H. destruct H as [H H4].
  apply andb_true_iff in H. destruct H as [H H5]. apply Z.leb_le in H, H5.
  set (lo := pat_lo ck len) in *. set (hi := pat_hi ck len) in *.
  assert (Hw : wrapc (fst dk) (snd dk) c = c).
  { apply wrapc_in_range; [lia|]. pose proof (in_carrier_between _ _ lo hi c H4 H3 Hc) as Hx. unfold in_carrier in Hx. apply andb_true_iff in Hx. lia. }
  assert (Hwc : wrapc ck cbits c = c) by (apply wrapc_in_range; lia).
  assert (Hcc : in_carrier (fst dk) (snd dk) c = true) by (eapply in_carrier_between; [exact H4|exact H3|exact Hc]).
  unfold idec_core, ienc_core. rewrite Hw.
  destruct r as [r|]; cbn [bind].
  - assert (Hp : in_carrier (fst dk) (snd dk) (c * r) = true) by (eapply in_carrier_between; [exact H2|exact H1|nia]).
    rewrite Hp. cbn [bind].
    assert (Hq : Z.quot (c * r) r = c) by (apply Z.quot_mul; lia).
    destruct (Z.eqb_spec r 0) as [|_]; [lia|].
    destruct b as [b|].
    + assert (Hs : in_carrier (fst dk) (snd dk) (c * r + b) = true) by (eapply in_carrier_between; [exact H0|exact H6|nia]).
      rewrite Hs. eexists. split; [reflexivity|]. split; [exact Hs|].
      apply Z.leb_le in K2. destruct (Z.leb_spec b (c * r + b)) as [_|]; [|nia].
      replace (c * r + b - b) with (c * r) by lia. rewrite Hp. cbn [bind]. rewrite Hq, Hcc. cbn [bind]. rewrite Hwc. reflexivity.
    + eexists. split; [reflexivity|]. split; [exact Hp|]. cbn [bind]. rewrite Hq, Hcc. cbn [bind]. rewrite Hwc. reflexivity.
  - destruct b as [b|].
    + assert (Hs : in_carrier (fst dk) (snd dk) (c + b) = true) by (eapply in_carrier_between; [exact H0|exact H6|lia]).
      rewrite Hs. eexists. split; [reflexivity|]. split; [exact Hs|].
      apply Z.leb_le in K2. destruct (Z.leb_spec b (c + b)) as [_|]; [|lia].
      replace (c + b - b) with c by lia. rewrite Hcc. cbn [bind]. rewrite Hwc. reflexivity.
    + eexists. split; [reflexivity|]. split; [exact Hcc|]. cbn [bind]. rewrite Hwc. reflexivity.
Qed.

(** ---------- all rows ---------- *)
Definition flt_rt_ok (prec emax : Z) (Hp : Prec_gt_0 prec) (Hpe : Prec_lt_emax prec emax) (fs : field_spec) : bool :=
  match num_flt prec emax Hp Hpe (f_res fs), num_flt prec emax Hp Hpe (f_bias fs) with
  | Some (Some r), Some b =>
      frow_ok prec emax r b (patN (f_ck fs) (f_len fs)) && f_round fs
      && match b with Some _ => 0 <=? pat_lo (f_ck fs) (f_len fs) | None => true end
      && (cmin (f_ck fs) (f_cbits fs) <=? pat_lo (f_ck fs) (f_len fs)) && (pat_hi (f_ck fs) (f_len fs) <=? cmax (f_ck fs) (f_cbits fs))
  | _, _ => false
  end.

Definition field_rt_ok (fs : field_spec) : bool :=
  match f_dt fs with
  | DF32 => flt_rt_ok 24 128 Hp32 Hpe32 fs
  | DF64 => flt_rt_ok 53 1024 Hp64 Hpe64 fs
  | d => match dty_int d, num_int (f_res fs), num_int (f_bias fs) with
         | Some dk, Some r, Some b => int_rt_ok dk r b (f_ck fs) (f_cbits fs) (f_len fs)
         | _, _, _ => false
         end
  end.

(** a decoded value is finite when it is a float *)
Definition val_finite (v : val) : Prop :=
  match v with
  | VF32 b => is_finite (f32_of_bits b) = true
  | VF64 b => is_finite (f64_of_bits b) = true
  | _ => True
  end.

Lemma flt_roundtrip prec emax Hp Hpe fs c r b :
  num_flt prec emax Hp Hpe (f_res fs) = Some (Some r) -> num_flt prec emax Hp Hpe (f_bias fs) = Some b ->
  flt_rt_ok prec emax Hp Hpe fs = true -> pat_lo (f_ck fs) (f_len fs) <= c <= pat_hi (f_ck fs) (f_len fs) ->
  is_finite (fdec_core prec emax Hp Hpe (Some r) b c) = true /\
  fenc_core prec emax Hp Hpe (Some r) b (f_round fs) (f_ck fs) (f_cbits fs) (fdec_core prec emax Hp Hpe (Some r) b c) = Ok c.
Proof.
  intros Er Eb H Hc. unfold flt_rt_ok in H. rewrite Er, Eb in H.
  apply andb_true_iff in H. destruct H as [H K4]. apply andb_true_iff in H. destruct H as [H K3].
  apply andb_true_iff in H. destruct H as [H K2]. apply andb_true_iff in H. destruct H as [K0 K1].
  apply Z.leb_le in K3, K4. rewrite K1.
  apply (frow_enc_dec prec emax Hp Hpe r b _ K0).
  - unfold patN. lia.
  - destruct b; [apply Z.leb_le in K2; lia|exact I].
  - lia.
Qed.

Theorem core_roundtrip fs c : field_rt_ok fs = true -> pat_lo (f_ck fs) (f_len fs) <= c <= pat_hi (f_ck fs) (f_len fs) ->
  exists v, decode_core fs c = Ok v /\ val_finite v /\ encode_core fs v = Ok c.
Proof.
  unfold field_rt_ok, decode_core, encode_core. intros H Hc.
  destruct (f_dt fs) eqn:Ed; cbn [dty_int] in *;
    try (destruct (num_int (f_res fs)) as [r|]; [|discriminate]; destruct (num_int (f_bias fs)) as [b|]; [|discriminate];
         destruct (int_roundtrip _ r b _ _ _ c H Hc) as [x [D [Cx E]]]; rewrite D; cbn [bind];
         eexists; split; [reflexivity|]; split; [exact I|]; rewrite Cx; exact E).
  - pose proof H as H'. unfold flt_rt_ok in H'.
    destruct (num_flt 24 128 Hp32 Hpe32 (f_res fs)) as [[r|]|] eqn:Er; try discriminate.
    destruct (num_flt 24 128 Hp32 Hpe32 (f_bias fs)) as [b|] eqn:Eb; try discriminate.
    destruct (flt_roundtrip 24 128 Hp32 Hpe32 fs c r b Er Eb H Hc) as [F E].
    eexists. split; [reflexivity|]. cbn [val_finite]. rewrite (f32_of_to_bits _ F). split; [exact F|exact E].
  - pose proof H as H'. unfold flt_rt_ok in H'.
    destruct (num_flt 53 1024 Hp64 Hpe64 (f_res fs)) as [[r|]|] eqn:Er; try discriminate.
    destruct (num_flt 53 1024 Hp64 Hpe64 (f_bias fs)) as [b|] eqn:Eb; try discriminate.
    destruct (flt_roundtrip 53 1024 Hp64 Hpe64 fs c r b Er Eb H Hc) as [F E].
    eexists. split; [reflexivity|]. cbn [val_finite]. rewrite (f64_of_to_bits _ F). split; [exact F|exact E].
Qed.

(** ---------- whole fields: the "absent" marker, and the bits ---------- *)
Theorem field_roundtrip fs data off c off' : field_rt_ok fs = true -> field_dec_ok fs = true ->
  bytes_ok data = true -> 0 <= off ->
  parse (f_ck fs) (f_cbits fs) data off (f_len fs) = Ok (c, off') ->
  exists v, decode_field fs data off = Ok (v, off') /\
    match f_inv fs with
    | Some i => (c = i -> v = VNone) /\ (c <> i -> exists x, v = VSome x /\ val_finite x)
    | None => val_finite v /\ v <> VNone
    end /\
    forall d o, encode_field fs (d, o) v = put (f_ck fs) (f_cbits fs) d o c (f_len fs).
Proof.
  intros Hrt Hok Hb Ho P. destruct (field_dec_ok_widths fs Hok) as [W1 W2].
  destruct (parse_range _ _ _ _ _ _ _ W1 W2 Ho Hb P) as [Hr _]. apply representable_range in Hr.
  destruct (core_roundtrip fs c Hrt Hr) as [x [D [F E]]].
  unfold decode_field, encode_field. rewrite P. cbn [bind]. rewrite D. cbn [bind].
  destruct (f_inv fs) as [i|].
  - destruct (Z.eqb_spec c i) as [->|Hne].
    + eexists. split; [reflexivity|]. split; [split; [reflexivity|intros X; contradiction]|]. intros d o. reflexivity.
    + eexists. split; [reflexivity|]. split; [split; [intros X; contradiction|intros _; exists x; split; [reflexivity|exact F]]|].
      intros d o. rewrite E. reflexivity.
  - exists x. split; [reflexivity|]. split.
    + split; [exact F|]. intros ->. unfold encode_core in E. destruct (f_dt fs); discriminate.
    + intros d o. rewrite E. reflexivity.
Qed.

(** "absent" is written as the marker *)
Lemma encode_absent fs i d o : f_inv fs = Some i -> encode_field fs (d, o) VNone = put (f_ck fs) (f_cbits fs) d o i (f_len fs).
Proof. intros H. unfold encode_field. rewrite H. reflexivity. Qed.

(** the value decoded from any field position, written anywhere there is room, reads back as itself *)
Theorem field_value_roundtrip fs data off v off' d o : field_rt_ok fs = true -> field_dec_ok fs = true ->
  bytes_ok data = true -> 0 <= off -> decode_field fs data off = Ok (v, off') ->
  bytes_ok d = true -> 0 <= o -> o + f_len fs <= 8 * zlen d ->
  exists d', encode_field fs (d, o) v = Ok (d', o + f_len fs) /\ decode_field fs d' o = Ok (v, o + f_len fs).
Proof.
  intros Hrt Hok Hb Ho D Hbd Hoo Hfit. destruct (field_dec_ok_widths fs Hok) as [W1 W2].
  destruct (parse (f_ck fs) (f_cbits fs) data off (f_len fs)) as [[c o1]|e|] eqn:P.
  2,3: unfold decode_field in D; rewrite P in D; discriminate.
  destruct (field_roundtrip fs data off c o1 Hrt Hok Hb Ho P) as [v' [D' [_ En]]].
  rewrite D in D'. inversion D'; subst v' o1.
  destruct (parse_range _ _ _ _ _ _ _ W1 W2 Ho Hb P) as [Hr _].
  destruct (put_parse_roundtrip (f_ck fs) (f_cbits fs) d o c (f_len fs) W1 W2 Hoo Hfit Hbd Hr) as [d' [Pu Pa]].
  exists d'. rewrite En. split; [exact Pu|].
  (* decoding the same carrier value gives the same field value *)
  unfold decode_field in D |- *. rewrite P in D. rewrite Pa. cbn [bind] in D |- *.
  destruct (decode_core fs c) as [x|e|]; cbn [bind] in D |- *; try discriminate.
  destruct (f_inv fs) as [i|]; [destruct (c =? i)|]; inversion D; reflexivity.
Qed.

(** every data field occurring in a layout (plain fields, list counts, MSM columns) *)
Fixpoint frag_fields (f : frag) : list field_spec :=
  match f with
  | FField fs => [fs]
  | FStruct l => (fix go (l : list frag) : list field_spec := match l with [] => [] | x :: r => frag_fields x ++ go r end) l
  | FLenMid f1 lenf f2 elem _ =>
      (fix go (l : list frag) : list field_spec := match l with [] => [] | x :: r => frag_fields x ++ go r end) f1
      ++ [lenf]
      ++ (fix go (l : list frag) : list field_spec := match l with [] => [] | x :: r => frag_fields x ++ go r end) f2
      ++ frag_fields elem
  | FVecLen elem _ _ => frag_fields elem
  | FGrid16 elem => frag_fields elem
  | FMsm _ a b => a ++ b
  | _ => []
  end.

(** ---------- quantisation of an arbitrary in-range input (C11) ---------- *)
Definition flt_near_ok (prec emax : Z) (Hp : Prec_gt_0 prec) (Hpe : Prec_lt_emax prec emax) (fs : field_spec) : bool :=
  match num_flt prec emax Hp Hpe (f_res fs), num_flt prec emax Hp Hpe (f_bias fs) with
  | Some (Some r), Some b =>
      fnear_ok prec emax r b (patN (f_ck fs) (f_len fs)) && f_round fs
      && match b with Some _ => 0 <=? pat_lo (f_ck fs) (f_len fs) | None => true end
      && (cmin (f_ck fs) (f_cbits fs) <=? pat_lo (f_ck fs) (f_len fs)) && (pat_hi (f_ck fs) (f_len fs) <=? cmax (f_ck fs) (f_cbits fs))
      && (cmin (f_ck fs) (f_cbits fs) <=? 0) && (0 <=? cmax (f_ck fs) (f_cbits fs)) && (pat_lo (f_ck fs) (f_len fs) <=? pat_hi (f_ck fs) (f_len fs))
  | _, _ => false
  end.

Definition field_near_ok (fs : field_spec) : bool :=
  match f_dt fs with
  | DF32 => flt_near_ok 24 128 Hp32 Hpe32 fs
  | DF64 => flt_near_ok 53 1024 Hp64 Hpe64 fs
  | _ => true
  end.

Section Near.
  Variables prec emax : Z.
  Context (Hp : Prec_gt_0 prec) (Hpe : Prec_lt_emax prec emax).
  Variable fs : field_spec.
  Variable r : binary_float prec emax.
  Variable b : option (binary_float prec emax).
  Hypothesis Er : num_flt prec emax Hp Hpe (f_res fs) = Some (Some r).
  Hypothesis Eb : num_flt prec emax Hp Hpe (f_bias fs) = Some b.
  Hypothesis Hok : flt_near_ok prec emax Hp Hpe fs = true.
  Notation lo := (pat_lo (f_ck fs) (f_len fs)).
  Notation hi := (pat_hi (f_ck fs) (f_len fs)).
  Notation dec := (fdec_core prec emax Hp Hpe (Some r) b).
  Notation enc := (fenc_core prec emax Hp Hpe (Some r) b (f_round fs) (f_ck fs) (f_cbits fs)).

  (** between two adjacent grid points: one of the two, within half a step plus the row's slack (at most a
      quarter step) *)
  Theorem flt_nearest x k : is_finite x = true -> lo <= k -> k + 1 <= hi ->
    (B2R (dec k) <= B2R x <= B2R (dec (k + 1)))%R ->
    exists n, enc x = Ok n /\ (n = k \/ n = k + 1) /\
      (Rabs (B2R x - B2R (dec n)) <= B2R r / 2 + Q2R (row_slack prec emax r b (patN (f_ck fs) (f_len fs))))%R /\
      (Q2R (row_slack prec emax r b (patN (f_ck fs) (f_len fs))) <= B2R r / 4)%R.
  Proof.
    intros Fx Hk Hk1 Hx. pose proof Hok as K. unfold flt_near_ok in K. rewrite Er, Eb in K.
    do 7 (apply andb_true_iff in K; destruct K as [K ?]).
    repeat match goal with X : (_ <=? _) = true |- _ => apply Z.leb_le in X end.
    match goal with X : f_round fs = true |- _ => rewrite X end.
    apply (fnear prec emax Hp Hpe r b _ K); try assumption; try (unfold patN; lia).
    destruct b; [match goal with X : (0 <=? lo) = true |- _ => apply Z.leb_le in X end; lia|exact I].
  Qed.

  (** monotone over the whole range; the result never leaves [lo, hi] *)
  Theorem flt_monotone x y : is_finite x = true -> is_finite y = true ->
    (B2R (dec lo) <= B2R x)%R -> (B2R x <= B2R y)%R -> (B2R y <= B2R (dec hi))%R ->
    exists nx ny, enc x = Ok nx /\ enc y = Ok ny /\ lo <= nx <= ny /\ ny <= hi.
  Proof.
    intros Fx Fy H1 H2 H3. pose proof Hok as K. unfold flt_near_ok in K. rewrite Er, Eb in K.
    do 7 (apply andb_true_iff in K; destruct K as [K ?]).
    repeat match goal with X : (_ <=? _) = true |- _ => apply Z.leb_le in X end.
    match goal with X : f_round fs = true |- _ => rewrite X end.
    apply (fnear_mono prec emax Hp Hpe r b _ K); try assumption; try (unfold patN; lia).
    destruct b; [match goal with X : (0 <=? lo) = true |- _ => apply Z.leb_le in X end; lia|exact I].
  Qed.
End Near.

(** link to the value-level codec: what encode_core / decode_core do on float rows *)
Lemma encode_core_f32 fs r b x : f_dt fs = DF32 -> num_flt 24 128 Hp32 Hpe32 (f_res fs) = Some r -> num_flt 24 128 Hp32 Hpe32 (f_bias fs) = Some b ->
  is_finite x = true ->
  encode_core fs (VF32 (f32_to_bits x)) = fenc_core 24 128 Hp32 Hpe32 r b (f_round fs) (f_ck fs) (f_cbits fs) x.
Proof. intros Hd Er Eb Fx. unfold encode_core. rewrite Hd, Er, Eb, (f32_of_to_bits x Fx). reflexivity. Qed.
Lemma encode_core_f64 fs r b x : f_dt fs = DF64 -> num_flt 53 1024 Hp64 Hpe64 (f_res fs) = Some r -> num_flt 53 1024 Hp64 Hpe64 (f_bias fs) = Some b ->
  is_finite x = true ->
  encode_core fs (VF64 (f64_to_bits x)) = fenc_core 53 1024 Hp64 Hpe64 r b (f_round fs) (f_ck fs) (f_cbits fs) x.
Proof. intros Hd Er Eb Fx. unfold encode_core. rewrite Hd, Er, Eb, (f64_of_to_bits x Fx). reflexivity. Qed.
Lemma decode_core_f32 fs r b k : f_dt fs = DF32 -> num_flt 24 128 Hp32 Hpe32 (f_res fs) = Some r -> num_flt 24 128 Hp32 Hpe32 (f_bias fs) = Some b ->
  decode_core fs k = Ok (VF32 (f32_to_bits (fdec_core 24 128 Hp32 Hpe32 r b k))).
Proof. intros Hd Er Eb. unfold decode_core. rewrite Hd, Er, Eb. reflexivity. Qed.
Lemma decode_core_f64 fs r b k : f_dt fs = DF64 -> num_flt 53 1024 Hp64 Hpe64 (f_res fs) = Some r -> num_flt 53 1024 Hp64 Hpe64 (f_bias fs) = Some b ->
  decode_core fs k = Ok (VF64 (f64_to_bits (fdec_core 53 1024 Hp64 Hpe64 r b k))).
Proof. intros Hd Er Eb. unfold decode_core. rewrite Hd, Er, Eb. reflexivity. Qed.

(** The body of message! (src/msg/message.rs): Message::from_message_frame, Message::number,
    MessageBuilder::{new, build_message, clear_data}, over the generated message table. *)
From Coq Require Import ZArith List Bool.
From RtcmModel Require Import Types BitIO Floats Field SigId Text Bias Msm Layout Crc Frame.
Import ListNotations.
Open Scope Z_scope.

Section Message.
  Variable sigt : gnss -> sigtable.
  Variable ssr59 ssr65 : sigtable.
  Variable cap59 cap65 : Z.
  (** the match arms of from_message_frame / build_message: (number, layout), in source order *)
  Variable table : list (Z * frag).

  Fixpoint lookup (n : Z) (t : list (Z * frag)) : option frag :=
    match t with
    | [] => None
    | (k, f) :: r => if n =? k then Some f else lookup n r
    end.

  (** Message::from_message_frame *)
  Definition from_frame (f : frame) : outcome message :=
    match fr_number f with
    | None => Ok MEmpty
    | Some n =>
        match lookup n table with
        | Some lay =>
            match decode_frag sigt ssr59 ssr65 cap59 cap65 lay (fr_data f) 12 with
            | Ok (v, _) => Ok (MTyped n v)
            | Err _ => Ok MCorrupt
            | Panic => Panic
            end
        | None => Ok (MUnsupp n)
        end
    end.

  (** Message::number *)
  Definition msg_number (m : message) : option Z :=
    match m with
    | MTyped n _ => match lookup n table with Some _ => Some n | None => None end
    | _ => None
    end.

  Record builder := { b_data : list Z; b_has_run : bool }.

  Definition builder_new : builder :=
    {| b_data := 211 :: repeat 0 1028; b_has_run := false |}.

  (** clear_data: every byte but the first *)
  Definition clear_data (d : list Z) : list Z :=
    match d with
    | [] => []
    | x :: r => x :: map (fun _ => 0) r
    end.

  Definition set_nth (l : list Z) (i : Z) (x : Z) : list Z := upd l (Z.to_nat i) (fun _ => x).

  (** build_message on a builder whose buffer (after the optional clearing) is [data]:
      the frame, and the buffer afterwards *)
  Definition build_on (data : list Z) (m : message) : outcome (list Z * list Z) :=
    let head := firstn 3 data in
    let window := firstn 1023 (skipn 3 data) in
    let tail := skipn 1026 data in
    match m with
    | MTyped n v =>
        match lookup n table with
        | None => Err EncodingNotSupported
        | Some lay =>
            st0 <- put KU 16 window 0 n 12 ;;
            st <- encode_frag sigt ssr59 ssr65 cap59 cap65 lay st0 v ;;
            o <- usub (snd st) 1 ;;
            let data_len := o / 8 + 1 in
            let data1 := head ++ fst st ++ tail in
            let data2 := set_nth data1 1 (Z.shiftr data_len 8 mod 256) in
            let data3 := set_nth data2 2 (Z.land data_len 255) in
            let crc := crc24q (zfirstn (data_len + 3) data3) in
            if zlen data3 <? data_len + 6 then Panic
            else
              let data4 := set_nth data3 (data_len + 3) (Z.land (Z.shiftr crc 16) 255) in
              let data5 := set_nth data4 (data_len + 4) (Z.land (Z.shiftr crc 8) 255) in
              let data6 := set_nth data5 (data_len + 5) (Z.land crc 255) in
              Ok (zfirstn (data_len + 6) data6, data6)
        end
    | _ => Err EncodingNotSupported
    end.

  (** MessageBuilder::build_message: new builder state and result.  After a failed build the
      buffer keeps whatever was written; the executable model keeps the cleared buffer instead
      (the difference is unobservable: see Proofs/BuilderProofs, where the post-failure
      buffer is arbitrary). *)
  Definition build (b : builder) (m : message) : builder * outcome (list Z) :=
    let data := if b_has_run b then clear_data (b_data b) else b_data b in
    match build_on data m with
    | Ok (frame, data') => ({| b_data := data'; b_has_run := true |}, Ok frame)
    | Err e => ({| b_data := data; b_has_run := true |}, Err e)
    | Panic => ({| b_data := data; b_has_run := true |}, Panic)
    end.

  Definition build_fresh (m : message) : outcome (list Z) := snd (build builder_new m).

  (** MessageFrame::get_message on a byte slice: frame parse, then decode *)
  Definition decode_bytes (d : list Z) : outcome message :=
    f <- frame_new d ;; from_frame f.
End Message.

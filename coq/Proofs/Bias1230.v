(** Message 1230 (GLONASS code-phase biases): what the encoder accepts, the decoder returns -- the entries in
    mask order (L1 C/A, L1 P, L2 C/A, L2 P), each once, bias on its 0.02 m grid (C16). *)
From Coq Require Import ZArith List Lia Bool Sorting.Permutation Sorting.Sorted.
From Flocq Require Import Core BinarySingleNaN.
From RtcmModel Require Import Types BitIO Floats Field SigId Bias.
From RtcmProofs Require Import ListZ EncodeLen BitProofs DecodeBound SigProofs BiasProofs DecodeTotal FieldProofs RoundTrip SortProofs.
Import ListNotations.
Open Scope Z_scope.

Definition e1230 := ((Z * Z) * Z)%type.

(** position of a signal in the 4-bit mask, most significant first: 0 = L1 C/A .. 3 = L2 P *)
Definition idx1230 (e : e1230) : Z := match glo1230_bit (fst e) with Some k => 3 - k | None => 4 end.

Lemma glo1230_bit_inv s k : glo1230_bit s = Some k -> 0 <= k <= 3 /\ s = sig1230 (3 - k).
Proof.
  destruct s as [b a]. unfold glo1230_bit.
  destruct (Z.eqb_spec b 1), (Z.eqb_spec a 67); cbn [andb]; [intros H; inversion H; subst; split; [lia|reflexivity]|..];
  destruct (Z.eqb_spec a 80); cbn [andb]; try (intros H; inversion H; subst; split; [lia|reflexivity]);
  destruct (Z.eqb_spec b 2); cbn [andb]; try (intros H; inversion H; subst; split; [lia|reflexivity]); try discriminate.
Qed.

(** sixteen-bit signed values written one after the other read back one by one *)
Lemma b1230_put_reads : forall l d o d' o', bytes_ok d = true -> 0 <= o -> b1230_put (d, o) l = Ok (d', o') ->
  o' = o + 16 * zlen l /\ bytes_ok d' = true /\ zlen d' = zlen d /\ agree d d' 0 o /\
  forall dfin, bytes_ok dfin = true -> agree d' dfin 0 o' ->
    forall k, (k < length l)%nat ->
      parse KI 16 dfin (o + 16 * Z.of_nat k) 16 = Ok (bias_quant f32_0_02 (snd (nth k l ((0, 0), 0))), o + 16 * Z.of_nat k + 16).
Proof.
  induction l as [|[s x] l IH]; intros d o d' o' Hb Ho H; cbn [b1230_put] in H.
  - inversion H; subst. unfold zlen; cbn [length]. split; [lia|]. split; [exact Hb|]. split; [reflexivity|]. split; [apply agree_refl|].
    intros dfin _ _ k Hk. cbn in Hk. lia.
  - cbn [fst snd] in H.
    destruct (put KI 16 d o (bias_quant f32_0_02 x) 16) as [[d1 o1]|e|] eqn:P; cbn [bind] in H; try discriminate.
    destruct (put_frame KI 16 d o _ 16 d1 o1 ltac:(lia) ltac:(lia) Ho Hb P) as [-> [F1 [L1 [B1 A1]]]].
    destruct (IH d1 (o + 16) d' o' B1 ltac:(lia) H) as [-> [B2 [L2 [A2 R2]]]].
    rewrite zlen_cons. split; [lia|]. split; [exact B2|]. split; [lia|]. split.
    + eapply agree_trans; [exact A1|]. apply (agree_sub _ _ 0 (o + 16)); [exact A2|lia|lia].
    + intros dfin Bf Af k Hk. pose proof (zlen_nonneg l) as Hn. destruct k as [|k].
      * cbn [nth snd]. replace (o + 16 * Z.of_nat 0) with o by lia.
        assert (Hr : representable KI 16 (bias_quant f32_0_02 x)).
        { cbn [representable]. unfold bias_quant. change (2 ^ (16 - 1)) with 32768.
          match goal with |- _ <= to_int_sat _ _ ?lo ?hi ?y < _ => generalize y end. intros y. unfold to_int_sat.
          destruct y as [sg|sg| |sg m e Hbnd]; try lia; [destruct sg; lia|].
          destruct (Z.ltb_spec (Btrunc (B754_finite sg m e Hbnd)) (-32768)); [lia|]. destruct (Z.ltb_spec 32767 (Btrunc (B754_finite sg m e Hbnd))); lia. }
        destruct (put_parse_roundtrip KI 16 d o _ 16 ltac:(lia) ltac:(lia) Ho F1 Hb Hr) as [d1' [P' Pa]]. rewrite P in P'. inversion P'; subst d1'.
        rewrite <- (parse_ext KI 16 d1 dfin o 16 ltac:(lia) ltac:(lia) Ho B1 Bf
                     ltac:(apply (agree_sub _ _ 0 (o + 16)); [eapply agree_trans; [exact A2|apply (agree_sub _ _ 0 (o + 16 + 16 * zlen l)); [exact Af|lia|lia]]|lia|lia])).
        exact Pa.
      * cbn [nth]. cbn [length] in Hk. specialize (R2 dfin Bf Af k ltac:(lia)).
        replace (o + 16 * Z.of_nat (S k)) with (o + 16 + 16 * Z.of_nat k) by lia. exact R2.
Qed.

Definition norm1230 (e : e1230) : val :=
  VStruct [VSig (fst (fst e)) (snd (fst e)); VF32 (bias_dequant f32_0_02 (bias_quant f32_0_02 (snd e)))].

(** the decoder's loop over the four mask positions, reading a list that is strictly ascending in mask order *)
Lemma b1230_dec_sorted dfin mask : forall n i rest off acc, 0 <= i -> i + Z.of_nat n = 4 ->
  StronglySorted (fun x y => idx1230 x < idx1230 y) rest ->
  (forall e, In e rest -> i <= idx1230 e <= 3) ->
  (forall j, i <= j <= 3 -> Z.testbit mask (3 - j) = existsb (fun e => idx1230 e =? j) rest) ->
  (forall k, (k < length rest)%nat ->
     parse KI 16 dfin (off + 16 * Z.of_nat k) 16 = Ok (bias_quant f32_0_02 (snd (nth k rest ((0, 0), 0))), off + 16 * Z.of_nat k + 16)) ->
  b1230_dec n i mask dfin off acc = Ok (rev acc ++ map norm1230 rest, off + 16 * zlen rest).
Proof.
  induction n as [|n IH]; intros i rest off acc Hi Hn Hs Hr Hm R; cbn [b1230_dec].
  - destruct rest as [|e r]; [unfold zlen; cbn; rewrite app_nil_r; f_equal; f_equal; lia|]. specialize (Hr e (or_introl eq_refl)). lia.
  - destruct (Z.testbit mask (3 - i)) eqn:Eb.
    + (* the head of the list sits at this position *)
      rewrite (Hm i ltac:(lia)) in Eb. apply existsb_exists in Eb. destruct Eb as [e0 [He0 Ei0]]. apply Z.eqb_eq in Ei0.
      destruct rest as [|e r]; [destruct He0|].
      assert (Hei : idx1230 e = i).
      { destruct He0 as [<-|Hin]; [exact Ei0|]. destruct (StronglySorted_inv Hs) as [_ Hall]. rewrite Forall_forall in Hall. specialize (Hall e0 Hin).
        specialize (Hr e (or_introl eq_refl)). lia. }
      pose proof (R O ltac:(cbn; lia)) as P0. cbn [nth snd] in P0. replace (off + 16 * Z.of_nat 0) with off in P0 by lia. rewrite P0. cbn [bind]. cbv zeta.
      assert (Hsig : sig1230 i = fst e).
      { unfold idx1230 in Hei. destruct (glo1230_bit (fst e)) as [k|] eqn:Ek; [|lia]. destruct (glo1230_bit_inv _ _ Ek) as [_ Es]. rewrite Es. f_equal. lia. }
      destruct (StronglySorted_inv Hs) as [Hs' Hall]. rewrite Forall_forall in Hall.
      rewrite (IH (i + 1) r (off + 16) (VStruct [VSig (fst (sig1230 i)) (snd (sig1230 i)); VF32 (bias_dequant f32_0_02 (bias_quant f32_0_02 (snd e)))] :: acc)
                ltac:(lia) ltac:(lia) Hs').
      * rewrite zlen_cons. cbn [rev map]. rewrite <- app_assoc. cbn [app]. unfold norm1230 at 2. rewrite Hsig. f_equal. f_equal. lia.
      * intros x Hx. specialize (Hall x Hx). specialize (Hr x (or_intror Hx)). lia.
      * intros j Hj. rewrite (Hm j ltac:(lia)). cbn [existsb]. destruct (Z.eqb_spec (idx1230 e) j); [lia|]. reflexivity.
      * intros k Hk. specialize (R (S k) ltac:(cbn [length]; lia)). cbn [nth] in R.
        replace (off + 16 + 16 * Z.of_nat k) with (off + 16 * Z.of_nat (S k)) by lia. exact R.
    + (* nothing at this position *)
      apply (IH (i + 1) rest off acc ltac:(lia) ltac:(lia) Hs).
      * intros e He. specialize (Hr e He). destruct (Z.eq_dec (idx1230 e) i) as [E|]; [|lia].
        rewrite (Hm i ltac:(lia)) in Eb. assert (X : existsb (fun e => idx1230 e =? i) rest = true) by (apply existsb_exists; exists e; split; [exact He|apply Z.eqb_eq; exact E]).
        rewrite X in Eb. discriminate.
      * intros j Hj. apply Hm. lia.
      * exact R.
Qed.

(** ---------- the encoder's mask ---------- *)
Lemma setbit_small m k : 0 <= m < 16 -> 0 <= k <= 3 -> 0 <= Z.setbit m k < 16.
Proof.
  intros Hm Hk.
  assert (Km : m = 0 \/ m = 1 \/ m = 2 \/ m = 3 \/ m = 4 \/ m = 5 \/ m = 6 \/ m = 7 \/ m = 8 \/ m = 9 \/ m = 10 \/ m = 11 \/ m = 12 \/ m = 13 \/ m = 14 \/ m = 15) by lia.
  assert (Kk : k = 0 \/ k = 1 \/ k = 2 \/ k = 3) by lia.
  repeat (destruct Km as [->|Km]); try subst m; repeat (destruct Kk as [->|Kk]); try subst k; vm_compute; split; (discriminate || reflexivity).
Qed.

Lemma b1230_mask_spec glo : forall l m mask, 0 <= m < 16 -> b1230_mask glo l m = Ok mask ->
  0 <= mask < 16 /\ (forall e, In e l -> 0 <= idx1230 e <= 3) /\
  forall j, 0 <= j <= 3 -> Z.testbit mask (3 - j) = Z.testbit m (3 - j) || existsb (fun e => idx1230 e =? j) l.
Proof.
  induction l as [|[s x] r IH]; intros m mask Hm H; cbn [b1230_mask] in H.
  - inversion H; subst. split; [exact Hm|]. split; [intros e []|]. intros j Hj. cbn [existsb]. rewrite orb_false_r. reflexivity.
  - destruct (glo1230_bit s) as [k|] eqn:Ek; [|discriminate].
    destruct (glo1230_bit_inv _ _ Ek) as [Hk Es].
    destruct (IH (Z.setbit m k) mask (setbit_small m k Hm Hk) H) as [Hmask [Hall Hbits]].
    assert (Hidx : idx1230 (s, x) = 3 - k) by (unfold idx1230; cbn [fst]; rewrite Ek; reflexivity).
    split; [exact Hmask|]. split.
    + intros e [<-|He]; [rewrite Hidx; lia|apply Hall; exact He].
    + intros j Hj. rewrite (Hbits j Hj). cbn [existsb]. rewrite Hidx.
      destruct (Z.eqb_spec (3 - k) j) as [E|E].
      * replace (3 - j) with k by lia. rewrite Z.setbit_eq by lia. rewrite orb_true_r. reflexivity.
      * rewrite Z.setbit_neq by lia. reflexivity.
Qed.

(** on the four 1230 signals the order of SigId is the mask order *)
Lemma sig_cmp_1230 glo : (forall i j, In i [0; 1; 2; 3] -> In j [0; 1; 2; 3] -> sig_cmp glo (sig1230 i) (sig1230 j) = (i ?= j)) ->
  forall a b : e1230, 0 <= idx1230 a <= 3 -> 0 <= idx1230 b <= 3 -> sig_cmp glo (fst a) (fst b) = (idx1230 a ?= idx1230 b).
Proof.
  intros Ht a b Ha Hb.
  assert (Sa : fst a = sig1230 (idx1230 a)).
  { unfold idx1230 in *. destruct (glo1230_bit (fst a)) as [k|] eqn:Ek; [|lia]. destruct (glo1230_bit_inv _ _ Ek) as [_ Es]. exact Es. }
  assert (Sb : fst b = sig1230 (idx1230 b)).
  { unfold idx1230 in *. destruct (glo1230_bit (fst b)) as [k|] eqn:Ek; [|lia]. destruct (glo1230_bit_inv _ _ Ek) as [_ Es]. exact Es. }
  rewrite Sa at 1. rewrite Sb at 1. apply Ht; cbn [In]; lia.
Qed.

Lemma idx1230_inj (a b : e1230) : 0 <= idx1230 a <= 3 -> idx1230 a = idx1230 b -> fst a = fst b.
Proof.
  intros Ha E. unfold idx1230 in *.
  destruct (glo1230_bit (fst a)) as [k|] eqn:Ek; [|lia]. destruct (glo1230_bit (fst b)) as [k'|] eqn:Ek'; [|lia].
  destruct (glo1230_bit_inv _ _ Ek) as [_ ->]. destruct (glo1230_bit_inv _ _ Ek') as [_ ->]. f_equal. lia.
Qed.

Definition key1230 (e : e1230) : Z * Z := (idx1230 e, 0).

Lemma strict_of_nodup : forall l : list e1230, NoDup (map idx1230 l) ->
  StronglySorted (fun a b => lexle (key1230 a) (key1230 b)) l -> StronglySorted (fun x y => idx1230 x < idx1230 y) l.
Proof.
  induction l as [|x r IH]; intros Hn Hs; [constructor|].
  cbn [map] in Hn. inversion Hn as [|? ? Hx Hr]; subst. destruct (StronglySorted_inv Hs) as [Hs' Hall].
  constructor; [apply IH; assumption|]. rewrite Forall_forall in *. intros y Hy. specialize (Hall y Hy).
  unfold lexle, key1230 in Hall. cbn [fst snd] in Hall.
  destruct (Z.eq_dec (idx1230 x) (idx1230 y)) as [E|E]; [|lia]. exfalso. apply Hx. rewrite E. apply in_map. exact Hy.
Qed.

(** what the 1230 encoder accepts, the decoder returns: the same entries, each once, in mask order, with
    the signal unchanged and the bias on its 0.02 m grid *)
Theorem b1230_encode_decodes glo d o l es d' o' :
  (forall i j, In i [0; 1; 2; 3] -> In j [0; 1; 2; 3] -> sig_cmp glo (sig1230 i) (sig1230 j) = (i ?= j)) ->
  bytes_ok d = true -> 0 <= o -> es1230_of_vals l = Some es -> NoDup (map fst es) ->
  b1230_encode glo (d, o) (VList l) = Ok (d', o') ->
  exists sorted, Permutation sorted es /\ StronglySorted (fun x y => idx1230 x < idx1230 y) sorted /\
    (forall e, In e es -> 0 <= idx1230 e <= 3) /\
    b1230_decode d' o = Ok (VList (map norm1230 sorted), o').
Proof.
  intros Ht Hb Ho Hes Hn H. unfold b1230_encode in H. rewrite Hes in H.
  destruct (Z.ltb_spec 4 (zlen es)) as [|Hcap]; [discriminate|].
  cbv zeta in H. set (sorted := sort_by (fun a b : Z * Z * Z => sig_cmp glo (fst a) (fst b)) es) in *.
  destruct (b1230_mask glo sorted 0) as [mask|e|] eqn:Em; cbn [bind] in H; try discriminate.
  destruct (b1230_mask_spec glo sorted 0 mask ltac:(lia) Em) as [Hmask [Hall Hbits]].
  pose proof (sort_by_perm_any (fun a b : Z * Z * Z => sig_cmp glo (fst a) (fst b)) es) as Perm. fold sorted in Perm.
  assert (Hall' : forall e, In e es -> 0 <= idx1230 e <= 3) by (intros e He; apply Hall; apply (Permutation_in _ (Permutation_sym Perm)); exact He).
  (* the sort is a sort by mask position *)
  assert (Hsort : sorted = sort_by (kcmp key1230) es).
  { unfold sorted. apply sort_by_congr. intros a b Ia Ib. rewrite (sig_cmp_1230 glo Ht a b (Hall' a Ia) (Hall' b Ib)).
    unfold kcmp, lexcmp, key1230. cbn [fst snd]. destruct (idx1230 a ?= idx1230 b); reflexivity. }
  assert (Hnk : NoDup (map key1230 es)).
  { clear - Hn Hall'. induction es as [|x r IH]; [constructor|]. cbn [map] in *. inversion Hn as [|? ? Hx Hr]; subst.
    constructor; [|apply IH; [exact Hr|intros e He; apply Hall'; right; exact He]].
    intros Hin. apply in_map_iff in Hin. destruct Hin as [y [Ey Hy]]. apply Hx. unfold key1230 in Ey. inversion Ey as [Ei].
    rewrite (idx1230_inj x y (Hall' x (or_introl eq_refl)) (eq_sym Ei)). apply in_map. exact Hy. }
  destruct (key_sort key1230 es Hnk) as [_ [Hss _]]. rewrite <- Hsort in Hss.
  assert (Hni : NoDup (map idx1230 sorted)).
  { assert (Hni0 : NoDup (map idx1230 es)).
    { clear - Hnk. induction es as [|x r IH]; [constructor|]. cbn [map] in *. inversion Hnk as [|? ? Hx Hr]; subst.
      constructor; [|apply IH; exact Hr]. intros Hin. apply Hx. apply in_map_iff in Hin. destruct Hin as [y [Ey Hy]].
      apply in_map_iff. exists y. split; [unfold key1230; rewrite Ey; reflexivity|exact Hy]. }
    eapply Permutation_NoDup; [apply Permutation_map; apply Permutation_sym; exact Perm|exact Hni0]. }
  pose proof (strict_of_nodup sorted Hni Hss) as Hstrict.
  exists sorted. split; [exact Perm|]. split; [exact Hstrict|]. split; [exact Hall'|].
  (* the bits *)
  cbn [fst snd] in H.
  destruct (put KU 8 d o mask 4) as [[d1 o1]|e1|] eqn:P1; cbn [bind] in H; try discriminate.
  destruct (put_frame KU 8 d o mask 4 d1 o1 ltac:(lia) ltac:(lia) Ho Hb P1) as [-> [F1 [L1 [B1 A1]]]].
  destruct (b1230_put_reads sorted d1 (o + 4) d' o' B1 ltac:(lia) H) as [-> [B2 [L2 [A2 R2]]]].
  unfold b1230_decode.
  assert (Hrs : representable KU 4 mask) by (cbn [representable]; change (2 ^ 4) with 16; lia).
  destruct (put_parse_roundtrip KU 8 d o mask 4 ltac:(lia) ltac:(lia) Ho F1 Hb Hrs) as [d1' [P1' Pa1]]. rewrite P1 in P1'. inversion P1'; subst d1'.
  rewrite <- (parse_ext KU 8 d1 d' o 4 ltac:(lia) ltac:(lia) Ho B1 B2 ltac:(apply (agree_sub _ _ 0 (o + 4)); [exact A2|lia|lia])), Pa1. cbn [bind].
  rewrite (b1230_dec_sorted d' mask 4 0 sorted (o + 4) [] ltac:(lia) ltac:(reflexivity) Hstrict).
  - cbn [rev app bind]. reflexivity.
  - intros e He. apply Hall. exact He.
  - intros j Hj. rewrite (Hbits j Hj). rewrite Z.bits_0. reflexivity.
  - intros k Hk. apply (R2 d' B2 (agree_refl _ _ _) k Hk).
Qed.

#!/bin/bash
# usage: seedtest.sh <patch.diff> Cxx [Cyy ...]   -- apply a seeded change to /repo, run the quick checks, undo it.
# The evidence files the checks write while the change is applied describe the changed tree: they are put back
# (git checkout) afterwards, so that the committed evidence always describes the unchanged tree.
patch="$1"; shift
git -C /repo apply "$patch" || { echo "patch does not apply"; exit 2; }
for p in "$@"; do
  out=$(/verif/check $p --tier quick 2>/dev/null | tail -3)
  echo "== $p: $(echo "$out" | tr '\n' '|' | cut -c1-700)"
done
git -C /repo checkout -- .
for p in "$@"; do git -C /verif checkout -- evidence/$p.json 2>/dev/null; done

(** C14 -- decode outcome is classified by message number, exhaustively.
    The message table is regenerated from src/msg/message.rs, src/msg/mod.rs, Cargo.toml and the
    directory listing on every run; the table obligations are re-checked by computation. *)
From Coq Require Import ZArith List Lia Bool String DecimalString.
From RtcmModel Require Import Types BitIO Frame Layout Message Top.
From RtcmGen Require Import GenSignals GenLayouts GenMessages.
From RtcmProofs Require Import ListZ FrameProofs.
Import ListNotations.
Open Scope Z_scope.

Definition dec_string (n : Z) : string := NilZero.string_of_uint (N.to_uint (Z.to_N n)).
Fixpoint zmem (x : Z) (l : list Z) : bool := match l with [] => false | y :: r => (x =? y) || zmem x r end.
Fixpoint znodup (l : list Z) : bool := match l with [] => true | x :: r => negb (zmem x r) && znodup r end.
Fixpoint strs_eqb (a b : list string) : bool :=
  match a, b with [] , [] => true | x :: r, y :: s => String.eqb x y && strs_eqb r s | _, _ => false end.
Fixpoint zs_eqb (a b : list Z) : bool :=
  match a, b with [] , [] => true | x :: r, y :: s => (x =? y) && zs_eqb r s | _, _ => false end.

Definition row_number (r : string * string * string * Z) : Z := snd r.
Definition row_ok (r : string * string * string * Z) : bool :=
  let '(feat, var, md, n) := r in
  String.eqb feat ("msg" ++ dec_string n) && String.eqb var ("Msg" ++ dec_string n) && String.eqb md ("msg" ++ dec_string n)
  && (0 <=? n) && (n <? 4096).

(** table obligation [messages_ok]: numbers pairwise distinct and below 4096; every message! row is
    ("msgN", MsgN, msgN, N) with the same N; the dispatch table of the model lists the same numbers in the
    same order; and the numbers are exactly the Cargo features, the all_msgs list, the include_msg! list
    and the msgNNNN.rs files present. *)
Definition messages_ok : bool :=
  znodup (map row_number message_rows) && forallb row_ok message_rows
  && zs_eqb (map fst messages) (map row_number message_rows)
  && strs_eqb (map (fun r => fst (fst (fst r))) message_rows) cargo_all_msgs
  && strs_eqb cargo_all_msgs cargo_feature_decls
  && strs_eqb (map fst include_rows) cargo_all_msgs && strs_eqb (map snd include_rows) cargo_all_msgs
  && strs_eqb files_present cargo_all_msgs.

Theorem C14_table_ok : messages_ok = true.
Proof. vm_compute. reflexivity. Qed.

Definition supported (n : Z) : bool := zmem n (map fst messages).

Lemma lookup_supported n : (exists lay, lookup n messages = Some lay) <-> supported n = true.
Proof.
  unfold supported. induction messages as [|[k f] r IH]; cbn.
  - split; [intros [? H]; discriminate|discriminate].
  - destruct (Z.eqb_spec n k); cbn; [split; eauto|exact IH].
Qed.

(** Empty exactly when the frame carries no message number, i.e. (C13_number) when its payload is
    shorter than two bytes *)
Theorem C14_empty : forall f, t_from_frame f = Ok MEmpty <-> fr_number f = None.
Proof.
  intros f. unfold t_from_frame, from_frame. destruct (fr_number f) as [n|]; [|tauto].
  split; [|discriminate].
  destruct (lookup n messages); [|discriminate].
  destruct (decode_frag _ _ _ _ _ _ _ _) as [[v o]|e|]; discriminate.
Qed.

Theorem C14_empty_bytes : forall d f, bytes_ok d = true -> frame_new d = Ok f ->
  (t_from_frame f = Ok MEmpty <-> data_len f < 2).
Proof.
  intros d f Hb E. rewrite C14_empty. destruct (frame_attributes d f Hb E) as [_ [_ [Hdl [_ [_ [_ Hn]]]]]].
  rewrite Hn, Hdl. unfold number_of. destruct (Z.leb_spec 2 (frame_length d)); split; try discriminate; try lia; reflexivity.
Qed.

(** for each of the 4096 numbers: unsupported -> MsgNotSupported carrying n; supported -> the typed
    variant for n, or Corrupt (or a panic of the decoder, excluded by C02) -- never another number's variant *)
Theorem C14_classify : forall f n, fr_number f = Some n ->
  (supported n = false -> t_from_frame f = Ok (MUnsupp n)) /\
  (supported n = true -> t_from_frame f = Ok MCorrupt \/ (exists v, t_from_frame f = Ok (MTyped n v)) \/ t_from_frame f = Panic).
Proof.
  intros f n Hn. unfold t_from_frame, from_frame. rewrite Hn. split.
  - intros Hs. destruct (lookup n messages) as [lay|] eqn:E; [|reflexivity].
    exfalso. assert (supported n = true) by (apply lookup_supported; eauto). congruence.
  - intros Hs. apply lookup_supported in Hs. destruct Hs as [lay E]. rewrite E.
    destruct (decode_frag _ _ _ _ _ _ _ _) as [[v o]|e|];
      [right; left; eexists; reflexivity|left; reflexivity|right; right; reflexivity].
Qed.

(** the number a typed message reports is the number of its variant, for exactly the supported numbers *)
Theorem C14_number : forall n v, t_msg_number (MTyped n v) = if supported n then Some n else None.
Proof.
  intros n v. unfold t_msg_number, msg_number. destruct (supported n) eqn:Hs.
  - apply lookup_supported in Hs. destruct Hs as [lay E]. rewrite E. reflexivity.
  - destruct (lookup n messages) as [lay|] eqn:E; [|reflexivity].
    assert (supported n = true) by (apply lookup_supported; eauto). congruence.
Qed.

(** and building refuses exactly the messages without a number *)
Theorem C14_build_needs_number : forall b m, t_msg_number m = None -> snd (t_build b m) = Err EncodingNotSupported.
Proof.
  intros b m H. unfold t_build, build, build_on.
  destruct m as [| |k|n v]; try reflexivity.
  unfold t_msg_number, msg_number in H. destruct (lookup n messages); [discriminate|reflexivity].
Qed.

(** the supported numbers are the message features of Cargo.toml (as decimal strings after "msg") *)
Theorem C14_supported_are_features :
  strs_eqb (map (fun n => ("msg" ++ dec_string n)%string) (map fst messages)) cargo_feature_decls = true.
Proof. vm_compute. reflexivity. Qed.

Example C14_example : supported 1077 = true /\ supported 1078 = false /\ supported 0 = false /\ supported 4095 = false.
Proof. repeat split; vm_compute; reflexivity. Qed.

Print Assumptions C14_table_ok.
Print Assumptions C14_empty_bytes.
Print Assumptions C14_classify.
Print Assumptions C14_number.

(** C12 -- a builder's output depends only on the message, not on what it built before.
    Statements only; proofs are in Proofs/BuilderProofs.v (and Proofs/EncodeLen.v: every encoder
    keeps the buffer length, by induction over the layout). *)
From Coq Require Import ZArith List Lia Bool.
From RtcmModel Require Import Types BitIO Layout Message Top.
From RtcmGen Require Import GenSignals GenLayouts.
From RtcmProofs Require Import BuilderProofs.
Import ListNotations.
Open Scope Z_scope.

Notation reach := (reach sig_table ssr_table_1059 ssr_table_1065 SAT_CAP_1059 SAT_CAP_1065 messages).

(** For every builder reachable from a new one by any finite sequence of builds -- successful ones, and
    failed ones after which the buffer may hold arbitrary bytes ([reach_garbage]) -- the result for any
    message equals the result of a fresh builder: the same frame bytes, or the same error. *)
Theorem C12_history : forall b m, reach b -> snd (t_build b m) = snd (t_build builder_new m).
Proof. exact (history_independent sig_table ssr_table_1059 ssr_table_1065 SAT_CAP_1059 SAT_CAP_1065 messages). Qed.

(** in particular for every list of earlier messages built with the executable model *)
Theorem C12_history_fold : forall ms m,
  snd (t_build (fold_left (fun b x => fst (t_build b x)) ms builder_new) m) = snd (t_build builder_new m).
Proof. exact (history_fold sig_table ssr_table_1059 ssr_table_1065 SAT_CAP_1059 SAT_CAP_1065 messages). Qed.

(** the invariant behind it: 1029 bytes starting with 0xD3, all zero until the first build *)
Theorem C12_inv_reachable : forall b, reach b -> binv b.
Proof. exact (reach_inv sig_table ssr_table_1059 ssr_table_1065 SAT_CAP_1059 SAT_CAP_1065 messages). Qed.

(** non-vacuity: after a failed build (Empty has no wire form) and a successful one, a 1005 message is
    built exactly as by a fresh builder *)
Example C12_example :
  let m := MTyped 1005 (VStruct [VInt 1; VInt 2; VInt 0; VInt 1; VInt 0; VInt 1; VF64 0; VInt 0; VInt 0; VF64 0; VInt 0; VF64 0]) in
  let b1 := fst (t_build builder_new MEmpty) in
  let b2 := fst (t_build b1 m) in
  is_ok (snd (t_build b2 m)) = true /\ snd (t_build b2 m) = snd (t_build builder_new m).
Proof. cbv zeta. split; vm_compute; reflexivity. Qed.

Print Assumptions C12_history.
Print Assumptions C12_history_fold.

(** Strings: Df88591String (src/util/mod.rs), ArrayString (src/util/array_string.rs), the
    df_88591_string_with_len! codec (src/df/mod.rs) and the 1029 UTF-8 text codec
    (src/df/dfs/df_msg1029_utf8_str.rs).  A Rust [&str] is a list of Unicode scalar values;
    core::str::from_utf8 / char::encode_utf8 are specified by RFC 3629. *)
From Coq Require Import ZArith List Bool.
From RtcmModel Require Import Types BitIO Field.
Import ListNotations.
Open Scope Z_scope.

Definition scalar_ok (c : Z) : bool :=
  ((0 <=? c) && (c <? 55296)) || ((57344 <=? c) && (c <? 1114112)).

(** Df88591StringChars::from_char / to_char *)
Definition from_char (c : Z) : Z := if (0 <? c) && (c <? 256) then c else 164.
Definition to_char (code : Z) : Z := if code =? 0 then 164 else code.

(** FromIterator<char> for Df88591String<N>: try_push until the first failure *)
Fixpoint df88591_collect (cap : Z) (buf : list Z) (cs : list Z) : list Z :=
  match cs with
  | [] => buf
  | c :: r => if cap <? zlen buf + 1 then buf else df88591_collect cap (buf ++ [from_char c]) r
  end.
Definition df88591_from_str (cap : Z) (cs : list Z) : list Z := df88591_collect cap [] cs.
Definition df88591_chars (bytes : list Z) : list Z := map to_char bytes.

(** char::len_utf8 / encode_utf8 *)
Definition utf8_len (c : Z) : Z :=
  if c <? 128 then 1 else if c <? 2048 then 2 else if c <? 65536 then 3 else 4.
Definition utf8_encode_char (c : Z) : list Z :=
  if c <? 128 then [c]
  else if c <? 2048 then [192 + c / 64; 128 + c mod 64]
  else if c <? 65536 then [224 + c / 4096; 128 + (c / 64) mod 64; 128 + c mod 64]
  else [240 + c / 262144; 128 + (c / 4096) mod 64; 128 + (c / 64) mod 64; 128 + c mod 64].
Definition utf8_encode (cs : list Z) : list Z := flat_map utf8_encode_char cs.

(** From<&str> for ArrayString<N>: push whole characters until the first that does not fit *)
Fixpoint array_string_collect (cap : Z) (buf : list Z) (cs : list Z) : list Z :=
  match cs with
  | [] => buf
  | c :: r =>
      if cap <? zlen buf + utf8_len c then buf
      else array_string_collect cap (buf ++ utf8_encode_char c) r
  end.
Definition array_string_from (cap : Z) (cs : list Z) : list Z := array_string_collect cap [] cs.

(** core::str::from_utf8 (RFC 3629 / Unicode table 3-7); returns the scalar values *)
Definition cont (b : Z) : bool := (128 <=? b) && (b <=? 191).
Definition inr (lo hi b : Z) : bool := (lo <=? b) && (b <=? hi).

Fixpoint utf8_decode (fuel : nat) (l : list Z) : option (list Z) :=
  match fuel with
  | O => match l with [] => Some [] | _ => None end
  | S f =>
      match l with
      | [] => Some []
      | b0 :: r =>
          if inr 0 127 b0 then option_map (cons b0) (utf8_decode f r)
          else if inr 194 223 b0 then
            match r with
            | b1 :: r1 =>
                if cont b1 then option_map (cons ((b0 - 192) * 64 + (b1 - 128))) (utf8_decode f r1) else None
            | _ => None
            end
          else if inr 224 239 b0 then
            match r with
            | b1 :: b2 :: r2 =>
                let ok1 := if b0 =? 224 then inr 160 191 b1
                           else if b0 =? 237 then inr 128 159 b1 else cont b1 in
                if ok1 && cont b2
                then option_map (cons ((b0 - 224) * 4096 + (b1 - 128) * 64 + (b2 - 128))) (utf8_decode f r2)
                else None
            | _ => None
            end
          else if inr 240 244 b0 then
            match r with
            | b1 :: b2 :: b3 :: r3 =>
                let ok1 := if b0 =? 240 then inr 144 191 b1
                           else if b0 =? 244 then inr 128 143 b1 else cont b1 in
                if ok1 && cont b2 && cont b3
                then option_map (cons ((b0 - 240) * 262144 + (b1 - 128) * 4096 + (b2 - 128) * 64 + (b3 - 128)))
                                (utf8_decode f r3)
                else None
            | _ => None
            end
          else None
      end
  end.
Definition from_utf8 (l : list Z) : option (list Z) := utf8_decode (length l) l.

(** put a list of bytes, 8 bits each *)
Fixpoint put_bytes (st : astate) (bs : list Z) : outcome astate :=
  match bs with
  | [] => Ok st
  | b :: r => st' <- put KU 8 (fst st) (snd st) b 8 ;; put_bytes st' r
  end.

(** df_88591_string_with_len!::encode; the value is the string the caller converted *)
Definition encode_str (cap len_bits : Z) (st : astate) (v : val) : outcome astate :=
  match v with
  | VStr cs =>
      let bytes := df88591_from_str cap cs in
      st1 <- put KU 8 (fst st) (snd st) (zlen bytes mod 256) len_bits ;;
      put_bytes st1 bytes
  | _ => Panic
  end.

Fixpoint parse_str_bytes (n : nat) (data : list Z) (off : Z) (acc : list Z) : outcome (list Z * Z) :=
  match n with
  | O => Ok (rev acc, off)
  | S n' =>
      '(v, off') <- parse KU 8 data off 8 ;;
      parse_str_bytes n' data off' ((if v =? 0 then 164 else v) :: acc)      (* Df88591String::push *)
  end.

(** df_88591_string_with_len!::decode *)
Definition decode_str (cap len_bits : Z) (data : list Z) (off : Z) : outcome (val * Z) :=
  '(len, off1) <- parse KU 8 data off len_bits ;;
  if cap <? len then Err CapacityExceeded
  else
    '(bytes, off2) <- parse_str_bytes (Z.to_nat len) data off1 [] ;;
    Ok (VStr (df88591_chars bytes), off2).

(** df_msg1029_utf8_str::encode; the value is ArrayString::<255>::from(str) *)
Definition encode_utf8 (st : astate) (v : val) : outcome astate :=
  match v with
  | VStr cs =>
      let bytes := array_string_from 255 cs in
      match from_utf8 bytes with
      | None => Panic                          (* Deref: from_utf8(..).unwrap() *)
      | Some chars =>
          let byte_len := zlen bytes in
          let char_len := zlen chars in
          if (255 <? byte_len) || (127 <? char_len) then Err BufferOverflow
          else
            st1 <- put KU 8 (fst st) (snd st) (char_len mod 256) 7 ;;
            st2 <- put KU 8 (fst st1) (snd st1) (byte_len mod 256) 8 ;;
            put_bytes st2 bytes
      end
  | _ => Panic
  end.

(** df_msg1029_utf8_str::decode *)
Definition decode_utf8 (data : list Z) (off : Z) : outcome (val * Z) :=
  '(_, off1) <- parse KU 8 data off 7 ;;
  '(len, off2) <- parse KU 8 data off1 8 ;;
  if zlen data <? off2 / 8 then Panic            (* &self.data[self.offset / 8..] *)
  else
    let d := zskipn (off2 / 8) data in
    if zlen d <? len then Err BufferOverflow
    else
      match from_utf8 (zfirstn len d) with
      | Some chars =>
          (* ArrayString::from(utf8_str): capacity 255 >= len *)
          let bytes := array_string_from 255 chars in
          match from_utf8 bytes with
          | Some chars' => Ok (VStr chars', off2 + len * 8)
          | None => Panic
          end
      | None => Err InvalidUtf8String
      end.

(** Lists indexed by Z: the helpers of Model/Types.v. *)
From Coq Require Import ZArith List Lia Bool.
From RtcmModel Require Import Types.
Import ListNotations.
Open Scope Z_scope.

Lemma zlen_nonneg {A} (l : list A) : 0 <= zlen l.
Proof. unfold zlen. lia. Qed.
Lemma zlen_app {A} (a b : list A) : zlen (a ++ b) = zlen a + zlen b.
Proof. unfold zlen. rewrite app_length. lia. Qed.
Lemma zlen_cons {A} (x : A) l : zlen (x :: l) = 1 + zlen l.
Proof. unfold zlen. cbn [length]. lia. Qed.
Lemma zlen_nil {A} : zlen (@nil A) = 0.
Proof. reflexivity. Qed.

Lemma zlen_zfirstn {A} n (l : list A) : 0 <= n <= zlen l -> zlen (zfirstn n l) = n.
Proof. unfold zlen, zfirstn. intros H. rewrite firstn_length. lia. Qed.
Lemma zlen_zfirstn_le {A} n (l : list A) : zlen (zfirstn n l) <= zlen l.
Proof. unfold zlen, zfirstn. rewrite firstn_length. lia. Qed.
Lemma zlen_zskipn {A} n (l : list A) : 0 <= n <= zlen l -> zlen (zskipn n l) = zlen l - n.
Proof. unfold zlen, zskipn. intros H. rewrite skipn_length. lia. Qed.

Lemma zfirstn_app_exact {A} (a b : list A) : zfirstn (zlen a) (a ++ b) = a.
Proof.
  unfold zfirstn, zlen. rewrite Nat2Z.id. rewrite firstn_app, Nat.sub_diag, firstn_all. cbn. apply app_nil_r.
Qed.
Lemma zskipn_app_exact {A} (a b : list A) : zskipn (zlen a) (a ++ b) = b.
Proof.
  unfold zskipn, zlen. rewrite Nat2Z.id. rewrite skipn_app, Nat.sub_diag, skipn_all. reflexivity.
Qed.
Lemma zfirstn_app_le {A} n (a b : list A) : n <= zlen a -> zfirstn n (a ++ b) = zfirstn n a.
Proof.
  unfold zfirstn, zlen. intros H. rewrite firstn_app.
  replace (Z.to_nat n - length a)%nat with 0%nat by lia. cbn. apply app_nil_r.
Qed.
Lemma zfirstn_all {A} (l : list A) : zfirstn (zlen l) l = l.
Proof. unfold zfirstn, zlen. rewrite Nat2Z.id. apply firstn_all. Qed.
Lemma zfirstn_zfirstn {A} n m (l : list A) : n <= m -> zfirstn n (zfirstn m l) = zfirstn n l.
Proof.
  unfold zfirstn. intros H. rewrite firstn_firstn. f_equal. lia.
Qed.
Lemma zskipn_app_le {A} n (a b : list A) : 0 <= n <= zlen a -> zskipn n (a ++ b) = zskipn n a ++ b.
Proof.
  unfold zskipn, zlen. intros H. rewrite skipn_app.
  replace (Z.to_nat n - length a)%nat with 0%nat by lia. reflexivity.
Qed.

Lemma znth_app_l (a b : list Z) i : 0 <= i < zlen a -> znth (a ++ b) i = znth a i.
Proof. unfold znth, zlen. intros H. apply app_nth1. lia. Qed.
Lemma znth_app_r (a b : list Z) i : zlen a <= i -> znth (a ++ b) i = znth b (i - zlen a).
Proof.
  unfold znth, zlen. intros H. rewrite app_nth2 by lia. f_equal. lia.
Qed.
Lemma znth_cons_0 x l : znth (x :: l) 0 = x.
Proof. reflexivity. Qed.
Lemma znth_cons_S x l i : 0 < i -> znth (x :: l) i = znth l (i - 1).
Proof.
  unfold znth. intros H. replace (Z.to_nat i) with (S (Z.to_nat (i - 1))) by lia. reflexivity.
Qed.
Lemma znth_zfirstn n (l : list Z) i : 0 <= i < n -> znth (zfirstn n l) i = znth l i.
Proof.
  unfold znth, zfirstn. intros H. revert l. generalize (Z.to_nat i) (Z.to_nat n) (Z2Nat.inj_lt i n ltac:(lia) ltac:(lia)).
  intros a b Hab. assert (Hlt : (a < b)%nat) by (apply Hab; lia). clear Hab.
  revert a Hlt. induction b as [|b IH]; intros a Hlt l; [lia|].
  destruct l as [|x l]; [destruct a; reflexivity|]. destruct a as [|a]; [reflexivity|]. cbn. apply IH. lia.
Qed.

Lemma bytes_ok_app a b : bytes_ok (a ++ b) = bytes_ok a && bytes_ok b.
Proof. unfold bytes_ok. apply forallb_app. Qed.
Lemma bytes_ok_znth d i : bytes_ok d = true -> 0 <= znth d i < 256.
Proof.
  unfold bytes_ok, znth. intros H. destruct (nth_in_or_default (Z.to_nat i) d 0) as [Hin | Hd]; [|rewrite Hd; lia].
  rewrite forallb_forall in H. specialize (H _ Hin). unfold byte_ok in H. lia.
Qed.
Lemma In_firstn {A} (x : A) n l : In x (firstn n l) -> In x l.
Proof.
  revert l. induction n as [|n IH]; intros l H; [destruct H|]. destruct l as [|y l]; [destruct H|].
  cbn in H. destruct H as [->|H]; [left; reflexivity|right; apply IH; exact H].
Qed.
Lemma bytes_ok_zfirstn n d : bytes_ok d = true -> bytes_ok (zfirstn n d) = true.
Proof.
  unfold bytes_ok, zfirstn. rewrite !forallb_forall. intros H x Hx. apply H. eapply In_firstn. exact Hx.
Qed.
